// C18: configurations are either rejected at load or run without invariant
// violations.
//
// Part A (load time): bounded-exhaustive enumeration of JSON configurations
// (full products within a section, all singles/pairs(/triples) of fields across
// sections) fed to the real decode + service.Config.Manager(); accepted/refused
// is compared with an independent validity predicate (oracle.go).  Every
// accepted configuration is additionally sent through the repository's own
// Migrate() + re-encode and must stay accepted with identical effective values
// (legacy single-listener fields == listener arrays).
//
// Part B (defaults): for every field with a documented default, "omitted",
// "explicitly empty" and "explicit documented default" must yield the same
// effective values, read through white-box exports, and that value must be the
// documented one.
//
// Part C (smoke): accepted configurations are started on loopback in worker
// subprocesses and driven with a fixed traffic script; a crash of the worker is
// a violation attributed to that configuration.
package main

import (
	"bytes"
	"crypto/sha256"
	"encoding/binary"
	"encoding/json"
	"flag"
	"fmt"
	"os"
	"os/exec"
	"path/filepath"
	"regexp"
	"runtime"
	"slices"
	"sort"
	"strconv"
	"strings"
	"sync"
	"time"

	"go.uber.org/zap"

	"verif/harness"
)

var (
	flagSmoke  = flag.String("c18smoke", "", "internal: run the smoke worker on this input file")
	flagShard  = flag.String("c18shard", "", "internal: run Part A shard i/n")
	flagTmp    = flag.String("c18tmp", "", "internal: fixture directory")
	flagBudget = flag.Duration("c18budget", time.Minute, "internal: Part A time budget")
)

type mismatch struct {
	idx    int64
	sig    string
	what   string
	replay any
}

type groupStat struct {
	Cases       int64 `json:"cases"`
	Valid       int64 `json:"oracle_valid"`
	Invalid     int64 `json:"oracle_invalid"`
	Either      int64 `json:"oracle_either"`
	Accepted    int64 `json:"accepted"`
	Refused     int64 `json:"refused"`
	EitherAcc   int64 `json:"either_accepted"`
	RoundTrips  int64 `json:"migrate_round_trips"`
	Mismatching int64 `json:"mismatching,omitempty"`
}

type engine struct {
	c      *harness.Check
	tmp    string
	env    map[string]string
	logger *zap.Logger

	mu         sync.Mutex
	next       int64
	stats      map[string]*groupStat
	order      []string
	mismatches []mismatch
	smoke      []kase
	reasons    map[string]int64
	deadline   time.Time
	shard      int
	nshards    int
	caps       []string
	hashes     []byte

	distinctDocs     int64
	mismatchingCases int64
	capped           bool
	sampled          map[string]bool
	samples          []map[string]any
}

func (e *engine) stat(g string) *groupStat {
	s := e.stats[g]
	if s == nil {
		s = &groupStat{}
		e.stats[g] = s
		e.order = append(e.order, g)
	}
	return s
}

// evaluate runs one Part A case on the real code and compares with the oracle.
func (e *engine) evaluate(k kase) {
	j := judge(k.doc)
	text := resolve(render(k.doc), e.env)
	res := load(text, e.logger)
	class := j.class()

	var mm *mismatch
	var more []mismatch
	replay := map[string]any{"part": "A", "group": k.group, "case": k.desc, "doc": k.doc}
	switch {
	case res.stage == "panic":
		mm = &mismatch{k.idx, "load-crashes: " + errorShape(res.err, e.tmp) + " @ " + res.frame,
			fmt.Sprintf("loading crashes instead of returning an error: %s (at %s)\n  case [%s] %s\n  config: %s", res.err, res.frame, k.group, k.desc, render(k.doc)), replay}
	case class == "invalid" && res.accepted:
		// one report per violated invariant (a document may violate several)
		for _, r := range j.invalid {
			more = append(more, mismatch{k.idx, "invalid-configuration-accepted: " + r,
				fmt.Sprintf("a configuration that violates [%s] is accepted by Config.Manager()\n  case [%s] %s\n  config: %s", j.reasons(), k.group, k.desc, render(k.doc)), replay})
		}
		mm = &more[0]
		more = more[1:]
	case class == "valid" && !res.accepted:
		mm = &mismatch{k.idx, "valid-configuration-refused: " + res.stage + ": " + errorShape(res.err, e.tmp),
			fmt.Sprintf("a documented-valid configuration is refused at %s: %s\n  case [%s] %s\n  config: %s", res.stage, res.err, k.group, k.desc, render(k.doc)), replay}
	}

	roundTrips := int64(0)
	if res.accepted && mm == nil {
		if m2 := e.roundTrip(k, text, &res); m2 != nil {
			mm = m2
		}
		roundTrips = 1
	}
	res.close()

	e.mu.Lock()
	s := e.stat(k.group)
	s.Cases++
	s.RoundTrips += roundTrips
	switch class {
	case "valid":
		s.Valid++
	case "invalid":
		s.Invalid++
		for _, r := range j.invalid {
			e.reasons[r]++
		}
	default:
		s.Either++
		if res.accepted {
			s.EitherAcc++
		}
	}
	if res.accepted {
		s.Accepted++
		if k.smoke == 1 || k.smoke == 2 && e.c.Thorough() {
			e.smoke = append(e.smoke, k)
		}
	} else {
		s.Refused++
	}
	if mm != nil {
		e.mismatches = append(e.mismatches, *mm)
		e.mismatches = append(e.mismatches, more...)
		e.mismatchingCases++
	}
	// written-out cases for the evidence: the first of every (group kind, oracle class, outcome)
	sk := strings.SplitN(k.group, "(", 2)[0] + "/" + class + "/" + map[bool]string{true: "accepted", false: "refused"}[res.accepted]
	if !e.sampled[sk] && len(e.samples) < 40 {
		e.sampled[sk] = true
		e.samples = append(e.samples, map[string]any{"part": "A", "case": "[" + k.group + "] " + k.desc, "config": k.doc, "oracle": class,
			"oracle_reasons": append(append([]string{}, j.invalid...), j.either...), "accepted": res.accepted, "error": strings.ReplaceAll(res.err, e.tmp, "@TMP@")})
	}
	e.mu.Unlock()
}

// roundTrip sends an accepted configuration through Migrate() and the JSON
// encoder (what `-fmtConf` does) and requires the same effective values.
func (e *engine) roundTrip(k kase, text string, res *loadResult) (mm *mismatch) {
	replay := map[string]any{"part": "A", "group": k.group, "case": k.desc, "doc": k.doc}
	defer func() {
		if r := recover(); r != nil {
			mm = &mismatch{k.idx, "migrate-panics: " + errorShape(fmt.Sprint(r), e.tmp), fmt.Sprintf("Migrate()/re-encode panics: %v\n  case [%s] %s\n  config: %s", r, k.group, k.desc, render(k.doc)), replay}
		}
	}()
	cfg2, err := decodeConfig(text)
	if err != nil {
		return nil
	}
	cfg2.Migrate()
	b, err := json.Marshal(cfg2)
	if err != nil {
		return &mismatch{k.idx, "migrated-configuration-not-encodable: " + errorShape(err.Error(), e.tmp), fmt.Sprintf("the migrated configuration cannot be encoded: %v\n  case [%s] %s\n  config: %s", err, k.group, k.desc, render(k.doc)), replay}
	}
	res2 := load(string(b), e.logger)
	defer res2.close()
	if !res2.accepted {
		return &mismatch{k.idx, "migrated-configuration-refused: " + res2.stage + ": " + errorShape(res2.err, e.tmp),
			fmt.Sprintf("an accepted configuration is refused after Migrate()+re-encode (%s: %s)\n  case [%s] %s\n  config: %s\n  migrated: %s", res2.stage, res2.err, k.group, k.desc, render(k.doc), strings.ReplaceAll(string(b), e.tmp, "@TMP@")), replay}
	}
	if d := snapshotDiff(snapshot(res), snapshot(&res2)); len(d) > 0 {
		return &mismatch{k.idx, "migrate-changes-effective-values: " + keyShape(d[0]),
			fmt.Sprintf("effective values differ after Migrate()+re-encode: %s\n  case [%s] %s\n  config: %s", strings.Join(d, "; "), k.group, k.desc, render(k.doc)), replay}
	}
	return nil
}

var reIndex = regexp.MustCompile(`\[[^\]]*\]`)

// keyShape turns "server[s0].tcp.listener[0].x: a vs b" into "server.tcp.listener.x".
func keyShape(diff string) string {
	k, _, _ := strings.Cut(diff, ": ")
	return reIndex.ReplaceAllString(k, "")
}

// runGroup evaluates the cases of a generator that belong to this shard
// (case index modulo shard count), sequentially; shards are processes.
func (e *engine) runGroup(name string, smoke int, gen func(s *sink)) {
	snk := &sink{}
	snk.own = func() bool {
		if e.capped {
			return false
		}
		if e.next%1024 == 0 && time.Now().After(e.deadline) {
			e.capped = true
			e.caps = append(e.caps, fmt.Sprintf("Part A time budget reached inside group %s after %d cases; later groups not run", name, e.next))
			return false
		}
		if e.next%int64(e.nshards) != int64(e.shard) {
			e.next++
			return false
		}
		return true
	}
	snk.put = func(doc J, desc string) { snk.putL(doc, desc, smoke) }
	snk.putL = func(doc J, desc string, smoke int) {
		k := kase{idx: e.next, group: name, desc: desc, doc: doc, smoke: smoke}
		e.next++
		h := sha256.Sum256([]byte(render(doc)))
		e.hashes = append(e.hashes, h[:8]...)
		e.evaluate(k)
	}
	gen(snk)
}

// shardReport is what one Part A shard process hands to the parent.
type shardReport struct {
	Next       int64                 `json:"next"`
	Order      []string              `json:"order"`
	Stats      map[string]*groupStat `json:"stats"`
	Reasons    map[string]int64      `json:"reasons"`
	Caps       []string              `json:"caps"`
	Mismatches []shardMismatch       `json:"mismatches"`
	Smoke      []shardCase           `json:"smoke"`
	HashFile   string                `json:"hashFile"`
	Samples    []map[string]any      `json:"samples"`
}

type shardMismatch struct {
	Idx    int64  `json:"idx"`
	Sig    string `json:"sig"`
	What   string `json:"what"`
	Replay any    `json:"replay"`
}

type shardCase struct {
	Idx   int64  `json:"idx"`
	Group string `json:"group"`
	Desc  string `json:"desc"`
	Doc   J      `json:"doc"`
}

// shardMain runs Part A for one shard and prints its report.
func shardMain(c *harness.Check, spec, tmp string, budget time.Duration) {
	runtime.GOMAXPROCS(2)
	e := &engine{c: c, tmp: tmp, env: loadEnv(tmp), logger: zap.NewNop(), stats: map[string]*groupStat{}, reasons: map[string]int64{}, sampled: map[string]bool{}}
	fmt.Sscanf(spec, "%d/%d", &e.shard, &e.nshards)
	if e.nshards < 1 {
		harness.Fatal("bad shard spec %q", spec)
	}
	if _, err := os.Stat(filepath.Join(tmp, "ds.txt")); err != nil {
		if err := writeFixtures(tmp); err != nil {
			harness.Fatal("fixtures: %v", err)
		}
	}
	e.deadline = time.Now().Add(budget)
	partA(e)
	rep := shardReport{Next: e.next, Order: e.order, Stats: e.stats, Reasons: e.reasons, Caps: e.caps, Samples: e.samples}
	// mismatches of one defect repeat thousands of times: keep the first few per signature
	perSig := map[string]int{}
	sort.Slice(e.mismatches, func(i, k int) bool { return e.mismatches[i].idx < e.mismatches[k].idx })
	for _, m := range e.mismatches {
		perSig[m.sig]++
		if perSig[m.sig] <= 3 {
			rep.Mismatches = append(rep.Mismatches, shardMismatch{m.idx, m.sig, m.what, m.replay})
		}
	}
	for _, k := range e.smoke {
		rep.Smoke = append(rep.Smoke, shardCase{k.idx, k.group, k.desc, k.doc})
	}
	rep.HashFile = filepath.Join(tmp, fmt.Sprintf("hashes-%d.bin", e.shard))
	if err := os.WriteFile(rep.HashFile, e.hashes, 0o644); err != nil {
		harness.Fatal("shard %s: %v", spec, err)
	}
	rep.Stats["_"] = &groupStat{Mismatching: e.mismatchingCases}
	b, _ := json.Marshal(rep)
	os.Stdout.Write(b)
	os.Exit(0)
}

// runShards runs Part A in Workers() processes and merges their reports into e.
func runShards(e *engine, budget time.Duration) (mismatching int64) {
	n := harness.Workers()
	reps := make([]*shardReport, n)
	errs := make([]string, n)
	var wg sync.WaitGroup
	for i := 0; i < n; i++ {
		wg.Add(1)
		go func(i int) {
			defer wg.Done()
			cmd := exec.Command(os.Args[0], "--tier", e.c.Tier, "--c18shard", fmt.Sprintf("%d/%d", i, n), "--c18tmp", e.tmp, "--c18budget", budget.String())
			var se bytes.Buffer
			cmd.Stderr = &se
			out, err := cmd.Output()
			if err != nil {
				errs[i] = fmt.Sprintf("%v\n%s", err, tailStr(se.String(), 3000))
				return
			}
			var r shardReport
			if err := json.Unmarshal(out, &r); err != nil {
				errs[i] = "bad report: " + err.Error()
				return
			}
			reps[i] = &r
		}(i)
	}
	wg.Wait()
	for i, er := range errs {
		if er != "" {
			harness.Fatal("Part A shard %d/%d failed: %s", i, n, er)
		}
	}
	capSeen := map[string]bool{}
	var hashes []uint64
	for i, r := range reps {
		if r.Next != reps[0].Next && len(r.Caps) == 0 && len(reps[0].Caps) == 0 {
			harness.Fatal("Part A shards disagree on the number of cases (%d vs %d): the enumeration is not deterministic", r.Next, reps[0].Next)
		}
		if i == 0 {
			e.order = r.Order
			e.next = r.Next
			// a few written-out cases: one accepted-valid, one refused-invalid, one either
			want := map[string]bool{"valid/true": true, "invalid/false": true, "either/true": true, "either/false": true}
			for _, sm := range r.Samples {
				k := fmt.Sprintf("%v/%v", sm["oracle"], sm["accepted"])
				if want[k] {
					delete(want, k)
					e.c.Sample(sm)
				}
			}
		}
		for g, s := range r.Stats {
			if g == "_" {
				mismatching += s.Mismatching
				continue
			}
			t := e.stats[g]
			if t == nil {
				t = &groupStat{}
				e.stats[g] = t
				found := false
				for _, o := range e.order {
					found = found || o == g
				}
				if !found {
					e.order = append(e.order, g)
				}
			}
			t.Cases += s.Cases
			t.Valid += s.Valid
			t.Invalid += s.Invalid
			t.Either += s.Either
			t.Accepted += s.Accepted
			t.Refused += s.Refused
			t.EitherAcc += s.EitherAcc
			t.RoundTrips += s.RoundTrips
		}
		for k, v := range r.Reasons {
			e.reasons[k] += v
		}
		for _, cp := range r.Caps {
			// every shard reports the same cap; say it once
			key := cp[:min(len(cp), 60)]
			if !capSeen[key] {
				capSeen[key] = true
				e.c.Cap(cp)
			}
		}
		for _, m := range r.Mismatches {
			e.mismatches = append(e.mismatches, mismatch{m.Idx, m.Sig, m.What, m.Replay})
		}
		for _, k := range r.Smoke {
			e.smoke = append(e.smoke, kase{idx: k.Idx, group: k.Group, desc: k.Desc, doc: k.Doc, smoke: 1})
		}
		hb, err := os.ReadFile(r.HashFile)
		if err != nil {
			harness.Fatal("shard hashes: %v", err)
		}
		for o := 0; o+8 <= len(hb); o += 8 {
			hashes = append(hashes, binary.LittleEndian.Uint64(hb[o:o+8]))
		}
		os.Remove(r.HashFile)
	}
	slices.Sort(hashes)
	hashes = slices.Compact(hashes)
	e.distinctDocs = int64(len(hashes))
	for i, h := range hashes {
		if i >= 1_500_000 { // the harness keeps at most 2M keys; the exact number is in coverage.partA.distinct_documents
			break
		}
		e.c.Distinct(strconv.FormatUint(h, 16), true)
	}
	return
}

func main() {
	flag.Parse()
	if *flagSmoke != "" {
		smokeWorker(*flagSmoke)
		return
	}
	c := harness.Start("C18")
	if *flagShard != "" {
		shardMain(c, *flagShard, *flagTmp, *flagBudget)
		return
	}
	runtime.GOMAXPROCS(harness.Workers())

	tmp, err := os.MkdirTemp("", "c18-")
	if err != nil {
		harness.Fatal("mkdtemp: %v", err)
	}
	cleanup := func() { os.RemoveAll(tmp) }
	harness.OnExit(cleanup) // also on the paths that leave through the harness (Finish, Fatal)
	if err := writeFixtures(tmp); err != nil {
		cleanup()
		harness.Fatal("fixtures: %v", err)
	}
	e := &engine{c: c, tmp: tmp, env: loadEnv(tmp), logger: zap.NewNop(), stats: map[string]*groupStat{}, reasons: map[string]int64{}, nshards: 1, sampled: map[string]bool{}}

	if c.Replay != "" {
		bad := replay(e)
		cleanup()
		if bad {
			os.Exit(1)
		}
		os.Exit(0)
	}

	c.Rule = "configuration documents are enumerated from explicit finite alphabets per field " +
		"(omitted / empty / documented default / other valid / boundary / invalid): full products within a section, " +
		"all singles and pairs" + harness.Pick(c, "", " and triples") + " of fields across sections, every server protocol x client protocol x listener form; " +
		"every document is decoded like cmd/shadowsocks-go does and given to the real service.Config.Manager(); " +
		"accepted/refused is compared with a validity predicate written from README.md, docs/config.json and the field comments; " +
		"accepted documents are re-checked after Migrate()+re-encode; default forms are compared on effective values read through exports; " +
		"accepted documents of the smoke set are started on 127.0.0.1:0 in worker subprocesses and driven with a fixed traffic script"
	c.Assumptions = []string{
		"Linux, loopback networking available; no external network (probe services and name resolution beyond /etc/hosts fail benignly)",
		"the oracle demands nothing where the documentation is silent (class 'either'): server without listeners, empty names, duplicate route names, route to a client lacking one network, UDP listener on a TCP-only protocol, tunnelUDPTargetOnly with a domain address, empty uPSK store, MTU above 65535, empty-string durations, usernames of SOCKS5/HTTP users",
		"Part C verdicts are crashes only; missing echoes and stop hangs are counted, never judged",
	}

	t0 := time.Now()
	mismatching := runShards(e, harness.Pick(c, 400*time.Second, 90*time.Minute))
	partATime := time.Since(t0)

	sort.Slice(e.mismatches, func(i, k int) bool { return e.mismatches[i].idx < e.mismatches[k].idx })
	confirmed := map[string]string{}
	for i := range e.mismatches {
		m := &e.mismatches[i]
		if !strings.HasPrefix(m.sig, "load-crashes: ") {
			continue
		}
		if sig, ok := confirmed[m.sig]; ok {
			m.sig = sig
			continue
		}
		// run the same document in a plain subprocess (no SetPanicOnFault): the real outcome
		rp := m.replay.(map[string]any)
		o := runSmoke(e, kase{doc: rp["doc"].(J)})
		old := m.sig
		if o.crashed {
			msg, frame := crashShape(o.stderr)
			m.sig = "load-crashes: " + msg + " @ " + frame
			m.what += fmt.Sprintf("\n  confirmed in a separate process: it dies with exit code %d: %s at %s\n  crash dump (head):\n%s", o.exit, msg, frame, indent(headStr(o.stderr, 1800)))
		} else {
			m.what += "\n  (a separate process did not die on this document)"
		}
		confirmed[old] = m.sig
	}
	for _, m := range e.mismatches {
		c.Violation(m.sig, m.what, m.replay)
	}
	var totalCases, totalAcc, totalInv, totalValid, totalEither, totalRT int64
	for _, g := range e.order {
		s := e.stats[g]
		if s == nil {
			continue
		}
		totalCases += s.Cases
		totalAcc += s.Accepted
		totalInv += s.Invalid
		totalValid += s.Valid
		totalEither += s.Either
		totalRT += s.RoundTrips
		b, _ := json.Marshal(s)
		var m map[string]any
		json.Unmarshal(b, &m)
		delete(m, "mismatching")
		c.Part("A:"+g, m)
	}
	c.Count(totalCases, e.distinctDocs, totalCases+2*totalRT)
	c.Extra["partA"] = map[string]any{
		"cases": totalCases, "distinct_documents": e.distinctDocs, "oracle_valid": totalValid, "oracle_invalid": totalInv, "oracle_either": totalEither,
		"accepted": totalAcc, "migrate_round_trips": totalRT, "mismatching_cases": mismatching, "wall_s": partATime.Seconds(),
		"invalidity_reasons_exercised": e.reasons, "shard_processes": harness.Workers(),
	}
	fmt.Printf("C18 part A: %d cases (%d distinct documents; %d valid, %d invalid, %d either; %d accepted), %d mismatching cases, %.1fs\n", totalCases, e.distinctDocs, totalValid, totalInv, totalEither, totalAcc, mismatching, partATime.Seconds())

	t1 := time.Now()
	partB(e)
	fmt.Printf("C18 part B: %.1fs\n", time.Since(t1).Seconds())

	t2 := time.Now()
	partC(e)
	fmt.Printf("C18 part C: %.1fs\n", time.Since(t2).Seconds())

	cleanup()
	c.Finish()
}

// ---------------------------------------------------------------------------
// Part A

func partA(e *engine) {
	thorough := e.c.Thorough()

	// A1: every server protocol x client protocol x listener form x enabled networks
	e.runGroup("protocol-matrix", 2, func(s *sink) {
		bools := []bool{true, false}
		for _, legacy := range []bool{false, true} {
			for _, sp := range serverProtoLetters {
				for _, cp := range clientProtoLetters {
					for _, sT := range bools {
						for _, sU := range bools {
							for _, cT := range bools {
								for _, cU := range bools {
									if !s.own() {
										continue
									}
									o := baseOpts{sp: sp.(string), cp: cp.(string), legacy: legacy, sTCP: sT, sUDP: sU, cTCP: cT, cUDP: cU}
									level := 2
									if sT && sU && cT && cU {
										level = 1
									}
									s.putL(baseDoc(o), fmt.Sprintf("server=%q client=%q legacy=%v serverTCP=%v serverUDP=%v clientTCP=%v clientUDP=%v", sp, cp, legacy, sT, sU, cT, cU), level)
								}
							}
						}
					}
				}
			}
		}
		// the implicit client: "clients" omitted or empty, multi-user servers
		for _, legacy := range []bool{false, true} {
			for _, sp := range serverProtoLetters {
				for _, multi := range bools {
					for _, clients := range []any{omitted, L{}} {
						if !s.own() {
							continue
						}
						d := baseDoc(baseOpts{sp: sp.(string), legacy: legacy, sTCP: true, sUDP: true, multiUser: multi, noClients: true})
						setPath(d, "clients", clients)
						s.putL(d, fmt.Sprintf("server=%q legacy=%v multiUser=%v clients=%s", sp, legacy, multi, letter(clients)), 1)
					}
				}
			}
		}
		for _, n := range []any{omitted, L{}} {
			if !s.own() {
				continue
			}
			d := J{}
			setPath(d, "servers", n)
			s.put(d, "servers="+letter(n))
		}
	})

	// A2: the tunnel section, full product
	e.runGroup("tunnel-section", 1, func(s0 *sink) {
		// nothing listens on [::1]:53: load-time only
		s := &sink{own: s0.own, put: func(doc J, desc string) {
			level := 1
			if strings.Contains(desc, "[::1]") {
				level = 0
			}
			s0.putL(doc, desc, level)
		}}
		s.putL = s0.putL
		for _, legacy := range []bool{false, true} {
			for _, nets := range [][2]bool{{true, true}, {true, false}, {false, true}} {
				base := func() J {
					return baseDoc(baseOpts{sp: "direct", cp: "direct", legacy: legacy, sTCP: nets[0], sUDP: nets[1], cTCP: true, cUDP: true})
				}
				ax := []axis{
					{name: "servers.0.tunnelRemoteAddress", vals: []any{"@ECHO@", "@ECHODOMAIN@", omitted, "", "no-port-here", "[::1]:53"}},
					{name: "servers.0.tunnelUDPTargetOnly", vals: []any{omitted, false, true}},
					{name: "servers.0.mtu", vals: []any{1500, 1280, 1279}},
				}
				product(base, ax, []int{0, 1, 2}, s.prefixed(fmt.Sprintf("legacy=%v tcp=%v udp=%v ; ", legacy, nets[0], nets[1])))
			}
		}
	})

	// A2b: sizes far beyond anything sensible.  The documentation gives no upper
	// bounds, so acceptance is open; what is demanded is that whatever is accepted
	// survives traffic.  Each huge letter has a large-but-sane control next to it.
	e.runGroup("unbounded-numerics", 1, func(s *sink) {
		const huge = int64(1) << 62
		put := func(desc string, mk func() J) {
			if s.own() {
				s.put(mk(), desc)
			}
		}
		for _, v := range []int64{65536, huge} {
			for _, sp := range []string{"socks5", m128} {
				put(fmt.Sprintf("server=%s udpListeners.0.sendChannelCapacity=%d", sp, v), func() J {
					d := baseDoc(baseOpts{sp: sp, cp: "direct", sTCP: true, sUDP: true, cTCP: true, cUDP: true})
					setPath(d, "servers.0.udpListeners.0.sendChannelCapacity", v)
					return d
				})
			}
			put(fmt.Sprintf("server=socks5 legacy udpSendChannelCapacity=%d", v), func() J {
				d := baseDoc(baseOpts{sp: "socks5", cp: "direct", legacy: true, sTCP: true, sUDP: true, cTCP: true, cUDP: true})
				setPath(d, "servers.0.udpSendChannelCapacity", v)
				return d
			})
			put(fmt.Sprintf("server=socks5 client=%s tcpListeners.0.initialPayloadWaitBufferSize=%d", m128, v), func() J {
				d := baseDoc(baseOpts{sp: "socks5", cp: m128, sTCP: true, sUDP: true, cTCP: true, cUDP: true})
				setPath(d, "servers.0.tcpListeners.0.initialPayloadWaitBufferSize", v)
				return d
			})
			put(fmt.Sprintf("server=%s slidingWindowFilterSize=%d", m128, v), func() J {
				d := baseDoc(baseOpts{sp: m128, cp: "direct", sTCP: true, sUDP: true, cTCP: true, cUDP: true})
				setPath(d, "servers.0.slidingWindowFilterSize", v)
				return d
			})
			put(fmt.Sprintf("client=%s slidingWindowFilterSize=%d", m128, v), func() J {
				d := baseDoc(baseOpts{sp: "socks5", cp: m128, sTCP: true, sUDP: true, cTCP: true, cUDP: true})
				setPath(d, "clients.0.slidingWindowFilterSize", v)
				return d
			})
			put(fmt.Sprintf("resolver cacheSize=%d", v), func() J {
				d := richDoc("socks5", false)
				setPath(d, "dns.0.cacheSize", v)
				return d
			})
		}
		for _, v := range []int64{65535, 1 << 40} {
			put(fmt.Sprintf("server=socks5 mtu=%d", v), func() J {
				d := baseDoc(baseOpts{sp: "socks5", cp: "direct", sTCP: true, sUDP: true, cTCP: true, cUDP: true})
				setPath(d, "servers.0.mtu", v)
				return d
			})
			put(fmt.Sprintf("client=direct mtu=%d", v), func() J {
				d := baseDoc(baseOpts{sp: "socks5", cp: "direct", sTCP: true, sUDP: true, cTCP: true, cUDP: true})
				setPath(d, "clients.0.mtu", v)
				return d
			})
		}
	})

	variants := []struct {
		sp     string
		legacy bool
	}{{m128, false}, {"socks5", true}, {m256, true}, {"socks5", false}, {"direct", false}, {"none", true}, {"http", false}, {"tproxy", false}}
	nv := harness.Pick(e.c, 2, len(variants))

	// A3: all single deviations from the rich base (also the core of the smoke set)
	for vi, v := range variants[:harness.Pick(e.c, 4, len(variants))] {
		axes := richAxes(v.legacy)
		base := func() J { return richDoc(v.sp, v.legacy) }
		level := 2
		if vi < 2 {
			level = 1
		}
		e.runGroup(fmt.Sprintf("singles(%s,legacy=%v)", v.sp, v.legacy), level, func(s *sink) {
			if s.own() {
				s.put(base(), "base")
			}
			tuples(base, axes, 1, s)
		})
	}

	// A4: full products within sections
	type prod struct {
		name     string
		sections []string
	}
	for _, v := range variants[:harness.Pick(e.c, 4, len(variants))] {
		axes := richAxes(v.legacy)
		base := func() J { return richDoc(v.sp, v.legacy) }
		tag := fmt.Sprintf("(%s,legacy=%v)", v.sp, v.legacy)
		prods := []prod{
			{"udp-listener-section", []string{"srv-udp"}},
			{"tcp-listener-section", []string{"srv-tcp"}},
			{"names-section", []string{"names"}},
			{"resolver-section", []string{"dns"}},
			{"sets-section", []string{"sets"}},
			{"second-server-section", []string{"srv1"}},
		}
		if isSS(v.sp) {
			prods = append(prods, prod{"ss2022-server-section", []string{"srv-ss"}})
		}
		for _, p := range prods {
			chosen := sectionAxes(axes, p.sections...)
			if len(chosen) == 0 {
				continue
			}
			e.runGroup(p.name+tag, 0, func(s *sink) { product(base, axes, chosen, s) })
		}
	}
	// client sections do not depend on the server variant
	{
		axes := richAxes(false)
		base := func() J { return richDoc(m128, false) }
		e.runGroup("client-section", 0, func(s *sink) { product(base, axes, sectionAxes(axes, "client"), s) })
		for _, method := range []string{m128, m256} {
			base := func() J {
				d := richDoc(m128, false)
				setClientProtocol(1)(d, method)
				return d
			}
			sel := sectionAxes(axes, "client-ss")
			for i, a := range axes {
				if a.name == "clients.1.enableUDP" {
					sel = append(sel, i)
				}
			}
			e.runGroup("ss2022-client-section("+method+")", 0, func(s *sink) { product(base, axes, sel, s) })
		}
	}
	// MTU x NAT timeout x method x user mode: the two numeric invariants together
	e.runGroup("ss2022-mtu-nat-keys", 0, func(s *sink) {
		for _, legacy := range []bool{false, true} {
			for _, method := range []string{m128, m256} {
				for _, multi := range []bool{false, true} {
					base := func() J {
						return baseDoc(baseOpts{sp: method, cp: method, legacy: legacy, sTCP: true, sUDP: true, cTCP: true, cUDP: true, multiUser: multi})
					}
					nat := axis{name: "servers.0.udpListeners.0.natTimeout", vals: []any{omitted, "0s", "59s", "59.999999999s", "60s", "60.000000001s", "61s", "5m0s", "-1s", "1ns"}}
					if legacy {
						nat = axis{name: "servers.0.natTimeoutSec", vals: []any{omitted, 0, 1, 59, 60, 61, 300, -1}}
					}
					ax := []axis{
						nat,
						{name: "servers.0.mtu", vals: []any{omitted, 0, 1279, 1280, 1281, 1492, 1500, 9000, 65535}},
						{name: "servers.0.psk(len)", vals: pskLenLetters, apply: pskAxisApply("servers.0.psk")},
						{name: "clients.0.mtu", vals: []any{omitted, 1279, 1280, 1500}},
						{name: "clients.0.psk(len)", vals: []any{16, 32, 24}, apply: pskAxisApply("clients.0.psk")},
					}
					product(base, ax, []int{0, 1, 2, 3, 4}, s.prefixed(fmt.Sprintf("method=%s legacy=%v multiUser=%v ; ", method, legacy, multi)))
				}
			}
		}
	})

	// A5: all pairs across all fields
	for vi, v := range variants[:nv] {
		axes := richAxes(v.legacy)
		base := func() J { return richDoc(v.sp, v.legacy) }
		_ = vi
		e.runGroup(fmt.Sprintf("pairs(%s,legacy=%v)", v.sp, v.legacy), 0, func(s *sink) { tuples(base, axes, 2, s) })
	}
	// A5b (thorough): the pairs of traffic-relevant fields once more, as the deep smoke set
	if thorough {
		for _, v := range variants[:2] {
			all := richAxes(v.legacy)
			var rt []axis
			for _, i := range sectionAxes(all, "srv", "srv-udp", "srv-udp-x", "srv-tcp", "srv-tcp-x", "srv-ss", "srv-ss-x", "srv-direct", "client", "client-ss") {
				rt = append(rt, all[i])
			}
			base := func() J { return richDoc(v.sp, v.legacy) }
			e.runGroup(fmt.Sprintf("traffic-field-pairs(%s,legacy=%v)", v.sp, v.legacy), 2, func(s *sink) { tuples(base, rt, 2, s) })
		}
	}
	// A6 (thorough): all triples
	if thorough {
		for _, v := range variants[:2] {
			axes := richAxes(v.legacy)
			base := func() J { return richDoc(v.sp, v.legacy) }
			e.runGroup(fmt.Sprintf("triples(%s,legacy=%v)", v.sp, v.legacy), 0, func(s *sink) { tuples(base, axes, 3, s) })
		}
	}
}

// ---------------------------------------------------------------------------
// Part C

type smokeOutcome struct {
	k        kase
	exit     int
	crashed  bool
	timedOut bool
	harness  bool
	stderr   string
	res      smokeResult
}

var reFrame = regexp.MustCompile(`(?m)^(github\.com/database64128/shadowsocks-go[^\s(]*(?:\([^)]*\))?[^\s(]*)\(`)

// crashShape extracts "panic message @ first repository frame" from a Go crash dump.
func crashShape(stderr string) (string, string) {
	msg := ""
	for _, line := range strings.Split(stderr, "\n") {
		if strings.HasPrefix(line, "panic: ") || strings.HasPrefix(line, "fatal error: ") {
			msg = strings.TrimSpace(line)
			break
		}
	}
	if i := strings.Index(msg, " [recovered"); i >= 0 {
		msg = msg[:i]
	}
	// the first two distinct repository frames: where it was raised < who called that
	var frames []string
	for _, m := range reFrame.FindAllStringSubmatch(stderr, -1) {
		f := strings.TrimPrefix(m[1], "github.com/database64128/shadowsocks-go/")
		if len(frames) == 0 || frames[len(frames)-1] != f {
			frames = append(frames, f)
		}
		if len(frames) == 2 {
			break
		}
	}
	frame := strings.Join(frames, " < ")
	msg = reDigits.ReplaceAllString(msg, "N")
	if len(msg) > 140 {
		msg = msg[:140]
	}
	return msg, frame
}

func runSmoke(e *engine, k kase) smokeOutcome {
	out := smokeOutcome{k: k}
	in, _ := json.Marshal(smokeInput{Doc: k.doc, Tmp: e.tmp})
	f, err := os.CreateTemp(e.tmp, "smoke-*.json")
	if err != nil {
		out.harness = true
		out.stderr = err.Error()
		return out
	}
	f.Write(in)
	f.Close()
	defer os.Remove(f.Name())
	cmd := exec.Command(os.Args[0], "--c18smoke", f.Name())
	var so, se bytes.Buffer
	cmd.Stdout, cmd.Stderr = &so, &se
	if err := cmd.Start(); err != nil {
		out.harness = true
		out.stderr = err.Error()
		return out
	}
	done := make(chan error, 1)
	go func() { done <- cmd.Wait() }()
	select {
	case err = <-done:
	case <-time.After(120 * time.Second):
		cmd.Process.Kill()
		<-done
		out.timedOut = true
		return out
	}
	out.stderr = se.String()
	if err != nil {
		if ee, ok := err.(*exec.ExitError); ok {
			out.exit = ee.ExitCode()
		} else {
			out.exit = -1
		}
	}
	switch {
	case out.exit == 0:
		if jerr := json.Unmarshal(bytes.TrimSpace(so.Bytes()), &out.res); jerr != nil {
			out.harness = true
			out.stderr = "bad worker output: " + jerr.Error() + "\n" + so.String()
		}
	case out.exit == 4:
		out.timedOut = true
	case out.exit == 5:
		out.harness = true
	default:
		out.crashed = true
	}
	return out
}

func smokeKey(k kase) string { return "[" + k.group + "] " + k.desc }

func partC(e *engine) {
	c := e.c
	sort.Slice(e.smoke, func(i, k int) bool { return e.smoke[i].idx < e.smoke[k].idx })
	// one run per distinct document
	seen := map[string]bool{}
	var set []kase
	for _, k := range e.smoke {
		r := render(k.doc)
		if seen[r] {
			continue
		}
		seen[r] = true
		set = append(set, k)
	}
	deadline := time.Now().Add(harness.Pick(c, 600*time.Second, 120*time.Minute))
	outs := make([]*smokeOutcome, len(set))
	var wg sync.WaitGroup
	sem := make(chan struct{}, harness.Workers())
	skipped := 0
	for i := range set {
		if time.Now().After(deadline) {
			skipped = len(set) - i
			break
		}
		wg.Add(1)
		sem <- struct{}{}
		go func(i int) {
			defer wg.Done()
			defer func() { <-sem }()
			o := runSmoke(e, set[i])
			outs[i] = &o
		}(i)
	}
	wg.Wait()
	if skipped > 0 {
		c.Cap(fmt.Sprintf("Part C time budget reached: %d of %d smoke configurations not run", skipped, len(set)))
	}

	ops := map[string]int{}
	var noEcho []string
	crashSeen := map[string]bool{}
	var ran, started, startFailed, stopHang, timeouts, crashes, notAccepted int64
	var transitions int64
	for i, o := range outs {
		if o == nil {
			continue
		}
		ran++
		switch {
		case o.harness:
			harness.Fatal("smoke worker failed for %s: %s", smokeKey(set[i]), tailStr(o.stderr, 1500))
		case o.timedOut:
			timeouts++
			c.Cap("smoke worker exceeded its time cap for " + smokeKey(set[i]))
		case o.crashed:
			crashes++
			msg, frame := crashShape(o.stderr)
			sig := "smoke-crash: " + msg + " @ " + frame
			if set[i].group == "unbounded-numerics" {
				// identified by the option that was given an absurd value, not by where the allocation fails
				f := strings.Fields(set[i].desc)
				side, key := "", ""
				for _, t := range f {
					k, _, _ := strings.Cut(t, "=")
					if side == "" && (k == "server" || k == "client") {
						side = k
					}
					key = k
				}
				if key == "client" || key == "server" {
					key = "?"
				}
				if strings.HasPrefix(f[len(f)-1], "client=") {
					side = "client"
				}
				sig = "smoke-crash[unbounded-numerics]: " + side + " " + key
			}
			if crashSeen[sig] {
				continue // the first (simplest) configuration with this crash is the one reported
			}
			crashSeen[sig] = true
			// confirm: run the configuration alone once more
			again := runSmoke(e, set[i])
			what := fmt.Sprintf("an accepted configuration crashes the process under the smoke script (exit %d; reproduced on re-run: %v)\n  %s\n  at %s\n  case %s\n  config: %s\n  crash dump (head):\n%s",
				o.exit, again.crashed, msg, frame, smokeKey(set[i]), render(set[i].doc), indent(headStr(o.stderr, 1800)))
			c.Violation(sig, what, map[string]any{"part": "C", "group": set[i].group, "case": set[i].desc, "doc": set[i].doc})
		default:
			if !o.res.Accepted {
				notAccepted++
				harness.Fatal("configuration accepted in Part A is refused in the smoke worker (%s): %s", smokeKey(set[i]), o.res.LoadError)
			}
			if o.res.Started {
				started++
			}
			if o.res.StartFailed {
				startFailed++
			}
			if o.res.StopHang {
				stopHang++
				c.Cap("services did not stop within 20 s for " + smokeKey(set[i]))
			}
			for k, n := range o.res.Ops {
				ops[k] += n
				transitions += int64(n)
				if strings.HasSuffix(k, ".noecho") || strings.HasSuffix(k, ".noreply") {
					noEcho = append(noEcho, smokeKey(set[i])+" -> "+k)
				}
			}
		}
	}
	c.Count(ran, 0, transitions)
	opKeys := make([]string, 0, len(ops))
	for k := range ops {
		opKeys = append(opKeys, k)
	}
	sort.Strings(opKeys)
	opsOrdered := map[string]int{}
	for _, k := range opKeys {
		opsOrdered[k] = ops[k]
	}
	c.Part("C:smoke", map[string]any{
		"configurations_in_smoke_set": len(set), "run": ran, "started": started, "a_service_failed_to_start": startFailed,
		"worker_crashes": crashes, "cases_without_echo": len(noEcho), "cases_without_echo_head": noEcho[:min(len(noEcho), 40)], "stop_hangs": stopHang, "worker_timeouts": timeouts, "traffic_operations": opsOrdered,
		"script": "per TCP listener: one proxied connection with payload and echo, one garbage connection; per UDP listener: one datagram and its echo, four garbage datagrams (empty, 1 byte, 200 bytes, 1400 zero bytes), for tunnels one reply from a non-target source; then Stop",
	})
	for i, o := range outs {
		if o != nil && !o.crashed && !o.timedOut && i%(max(len(outs)/3, 1)) == 0 {
			c.Sample(map[string]any{"part": "C", "case": smokeKey(set[i]), "config": set[i].doc, "operations": o.res.Ops, "notes": o.res.Notes})
		}
	}
	fmt.Printf("C18 part C: %d configurations run, %d started, %d start failures, %d crashes, %d stop hangs, %d timeouts\n", ran, started, startFailed, crashes, stopHang, timeouts)
}

func tailStr(s string, n int) string {
	if len(s) > n {
		return s[len(s)-n:]
	}
	return s
}

func headStr(s string, n int) string {
	if len(s) > n {
		return s[:n]
	}
	return s
}

func indent(s string) string {
	return "    " + strings.ReplaceAll(strings.TrimRight(s, "\n"), "\n", "\n    ")
}

// ---------------------------------------------------------------------------
// replay

func replay(e *engine) bool {
	r, err := harness.ReplayFile(e.c.Replay)
	if err != nil {
		harness.Fatal("%v", err)
	}
	part, _ := r["part"].(string)
	group, _ := r["group"].(string)
	desc, _ := r["case"].(string)
	fmt.Printf("replay part=%s case=[%s] %s\n", part, group, desc)
	e.deadline = time.Now().Add(time.Hour)
	bad := false
	report := func(sig, what string) {
		bad = true
		fmt.Printf("VIOLATION property=C18 replay=%s\n  signature: %s\n  %s\n", e.c.Replay, sig, what)
	}
	switch part {
	case "A":
		doc, _ := r["doc"].(J)
		e.evaluate(kase{group: group, desc: desc, doc: doc})
		for _, m := range e.mismatches {
			if strings.HasPrefix(m.sig, "load-crashes: ") {
				// the real outcome, in a process that does not turn faults into panics
				if o := runSmoke(e, kase{doc: doc}); o.crashed {
					msg, frame := crashShape(o.stderr)
					m.sig = "load-crashes: " + msg + " @ " + frame
					m.what += fmt.Sprintf("\n  in a separate process it dies with exit code %d:\n%s", o.exit, indent(headStr(o.stderr, 2500)))
				}
			}
			report(m.sig, m.what)
		}
	case "B":
		for _, m := range replayB(e, r) {
			report(m.sig, m.what)
		}
	case "C":
		doc, _ := r["doc"].(J)
		k := kase{group: group, desc: desc, doc: doc}
		o := runSmoke(e, k)
		switch {
		case o.crashed:
			msg, frame := crashShape(o.stderr)
			report("smoke-crash: "+msg+" @ "+frame, "the worker crashed again:\n"+indent(headStr(o.stderr, 2500)))
		case o.harness:
			harness.Fatal("smoke worker failed: %s", tailStr(o.stderr, 1500))
		default:
			fmt.Printf("worker result: %+v\n", o.res)
		}
	default:
		harness.Fatal("replay file has no known part: %q", part)
	}
	if !bad {
		fmt.Println("no violation on replay")
	}
	return bad
}
