package all

import (
	"testing"

	_ "github.com/database64128/shadowsocks-go/api/ssm"
	_ "github.com/database64128/shadowsocks-go/netiotest"
	_ "github.com/database64128/shadowsocks-go/service"
)

func TestBuild(t *testing.T) {}
