package main

import (
	"bytes"
	"fmt"
	"net/netip"
	"os"
	"path/filepath"
	"sort"
	"strings"

	"github.com/database64128/shadowsocks-go/prefixset"

	"verif/harness"
)

// prefixVocab: v4 and v6, nested chains, host routes, default routes, a prefix
// written with host bits set, and a v4-mapped v6 prefix.
func prefixVocab(c *harness.Check) []string {
	v := []string{
		"10.0.0.0/8", "10.1.0.0/16", "10.1.2.3/32", "10.1.2.128/25", "0.0.0.0/0", "255.255.255.255/32", "127.0.0.1/8",
		"2001:db8::/32", "2001:db8:1::/48", "2001:db8:1::1/128", "::/0", "::ffff:10.0.0.0/104", "fe80::/10", "::1/128",
	}
	if c.Thorough() {
		v = append(v, "10.1.2.0/31", "128.0.0.0/1", "2001:db8::/33", "ffff:ffff:ffff:ffff:ffff:ffff:ffff:ffff/128")
	}
	return v
}

func prefixProbes(vocab []string) []netip.Addr {
	seen := map[netip.Addr]bool{}
	var out []netip.Addr
	add := func(a netip.Addr) {
		if a.IsValid() && !seen[a] {
			seen[a] = true
			out = append(out, a)
		}
	}
	both := func(a netip.Addr) {
		add(a)
		if a.Is4() {
			add(netip.AddrFrom16(a.As16())) // v4-mapped twin
		} else if a.Is4In6() {
			add(a.Unmap())
		}
	}
	for _, s := range vocab {
		p := netip.MustParsePrefix(s).Masked()
		first := p.Addr()
		// last address of the prefix
		b := first.AsSlice()
		for i := p.Bits(); i < len(b)*8; i++ {
			b[i/8] |= 0x80 >> (i % 8)
		}
		last, _ := netip.AddrFromSlice(b)
		both(first)
		both(last)
		both(first.Prev())
		both(last.Next())
		both(first.Next())
		both(last.Prev())
	}
	for _, s := range []string{"0.0.0.0", "255.255.255.255", "::", "ffff:ffff:ffff:ffff:ffff:ffff:ffff:ffff", "192.0.2.1", "2001:db9::1"} {
		both(netip.MustParseAddr(s))
	}
	sort.Slice(out, func(i, j int) bool { return out[i].Less(out[j]) })
	return out
}

type prefixFail struct {
	Rep    string `json:"representation"`
	Kind   string `json:"failure"`
	Addr   string `json:"address,omitempty"`
	Detail string `json:"detail,omitempty"`
}

func (f prefixFail) sig() string { return "prefix:" + f.Rep + ":" + f.Kind }
func (f prefixFail) what(ps []string) string {
	s := fmt.Sprintf("prefixes %v via %s: ", ps, f.Rep)
	switch f.Kind {
	case "false-positive":
		return s + "Contains(" + f.Addr + ") = true, reference says false"
	case "false-negative":
		return s + "Contains(" + f.Addr + ") = false, reference says true"
	}
	return s + f.Kind + ": " + f.Detail
}

func insertPrefixes[T interface{ Insert(netip.Prefix) }](s T, pfx []netip.Prefix) {
	for _, p := range pfx {
		s.Insert(p)
	}
}

type prefixTextVariant struct {
	name string
	text func(lines []string) string
}

var prefixTextVariants = []prefixTextVariant{
	{"text[LF]", func(l []string) string { return strings.Join(l, "\n") + "\n" }},
	{"text[LF,noFinalNewline]", func(l []string) string { return strings.Join(l, "\n") }},
	{"text[CRLF]", func(l []string) string { return strings.Join(l, "\r\n") + "\r\n" }},
	{"text[CRLF,noFinalNewline]", func(l []string) string { return strings.Join(l, "\r\n") }},
	{"text[blank+comment lines]", func(l []string) string {
		var sb strings.Builder
		sb.WriteString("# prefixes\n\n")
		for _, s := range l {
			sb.WriteString(s + "\n\n#" + s + "\n\r\n")
		}
		return sb.String()
	}},
}

// checkPrefixes: the prefix list inserted through the API is the set being
// "written out"; every reload must contain the same addresses, and all must
// agree with the reference (some prefix of the list contains the address).
func checkPrefixes(t *tally, list []string, probes []netip.Addr, tmpdir string, all bool) (fails []prefixFail, nontrivial bool) {
	t.cases++
	pfx := make([]netip.Prefix, len(list))
	for i, s := range list {
		pfx[i] = netip.MustParsePrefix(s)
	}
	exp := make([]bool, len(probes))
	yes := 0
	for i, a := range probes {
		for _, p := range pfx {
			if p.Masked().Contains(a) {
				exp[i] = true
				yes++
				break
			}
		}
	}
	nontrivial = yes > 0 && yes < len(probes)
	fail := func(f prefixFail) bool {
		fails = append(fails, f)
		return !all
	}
	type lite interface{ Contains(netip.Addr) bool }
	cmp := func(rep string, build func() (lite, error)) (stop bool) {
		var s lite
		var err error
		var pan string
		bad := -1
		var badGot bool
		func() {
			defer func() {
				if r := recover(); r != nil {
					pan = fmt.Sprint(r)
				}
			}()
			s, err = build()
			if err != nil {
				return
			}
			for i, a := range probes {
				if got := s.Contains(a); got != exp[i] && bad < 0 {
					bad, badGot = i, got
				}
			}
		}()
		t.ops += int64(len(probes)) + 1
		switch {
		case pan != "":
			return fail(prefixFail{Rep: rep, Kind: "panic", Detail: pan})
		case err != nil:
			return fail(prefixFail{Rep: rep, Kind: "load-error", Detail: err.Error()})
		case bad >= 0:
			k := "false-negative"
			if badGot {
				k = "false-positive"
			}
			return fail(prefixFail{Rep: rep, Kind: k, Addr: probes[bad].String()})
		}
		return false
	}
	api := func() (lite, error) {
		s, err := prefixset.PrefixSetFromText("")
		if err != nil {
			return nil, err
		}
		insertPrefixes(s, pfx)
		return s, nil
	}
	if cmp("api(Insert)", api) {
		return
	}
	for _, v := range prefixTextVariants {
		if cmp(v.name+">PrefixSetFromText", func() (lite, error) { return prefixset.PrefixSetFromText(v.text(list)) }) {
			return
		}
	}
	if cmp("api>PrefixSetToText>PrefixSetFromText", func() (lite, error) {
		s, _ := prefixset.PrefixSetFromText("")
		insertPrefixes(s, pfx)
		return prefixset.PrefixSetFromText(string(prefixset.PrefixSetToText(s)))
	}) {
		return
	}
	if cmp("api>PrefixSetWriteText>PrefixSetFromText", func() (lite, error) {
		s, _ := prefixset.PrefixSetFromText("")
		insertPrefixes(s, pfx)
		var buf bytes.Buffer
		if err := prefixset.PrefixSetWriteText(s, &buf); err != nil {
			return nil, err
		}
		return prefixset.PrefixSetFromText(buf.String())
	}) {
		return
	}
	if cmp("api>ToText>FromText>ToText>FromText", func() (lite, error) {
		s, _ := prefixset.PrefixSetFromText("")
		insertPrefixes(s, pfx)
		s2, err := prefixset.PrefixSetFromText(string(prefixset.PrefixSetToText(s)))
		if err != nil {
			return nil, err
		}
		return prefixset.PrefixSetFromText(string(prefixset.PrefixSetToText(s2)))
	}) {
		return
	}
	if tmpdir != "" {
		if cmp("api>PrefixSetWriteText>file>Config.LoadPrefixSet", func() (lite, error) {
			s, _ := prefixset.PrefixSetFromText("")
			insertPrefixes(s, pfx)
			path := filepath.Join(tmpdir, "set.txt")
			f, err := os.Create(path)
			if err != nil {
				harness.Fatal("scratch file: %v", err)
			}
			if err := prefixset.PrefixSetWriteText(s, f); err != nil {
				f.Close()
				return nil, err
			}
			f.Close()
			return prefixset.Config{Name: "c10", Path: path}.LoadPrefixSet()
		}) {
			return
		}
	}
	return
}

func prefixParts(c *harness.Check) {
	if !want("prefixes") {
		return
	}
	vocab := prefixVocab(c)
	probes := prefixProbes(vocab)
	tmproot, err := os.MkdirTemp("", "verif-c10-")
	if err != nil {
		harness.Fatal("%v", err)
	}
	defer os.RemoveAll(tmproot)
	mkdir := func() string {
		d, err := os.MkdirTemp(tmproot, "w")
		if err != nil {
			harness.Fatal("%v", err)
		}
		return d
	}
	canon := func(list []string) string {
		var ls []string
		for _, s := range list {
			ls = append(ls, netip.MustParsePrefix(s).Masked().String())
		}
		sort.Strings(ls)
		return "pfx|" + strings.Join(ls, ",")
	}
	var probeStr []string
	for _, a := range probes {
		probeStr = append(probeStr, a.String())
	}
	c.Extra["prefix_probes"] = probeStr

	// every subset, inserted in vocabulary order
	n := int64(1) << len(vocab)
	total, complete := parallel(n, 16, mkdir, func(dir string, t *tally, i int64) {
		var list []string
		for b := range vocab {
			if i&(1<<b) != 0 {
				list = append(list, vocab[b])
			}
		}
		fails, nontrivial := checkPrefixes(t, list, probes, dir, false)
		c.Distinct(canon(list), nontrivial)
		for _, f := range fails {
			report(30<<48|i, f.sig(), f.what(list), map[string]any{"part": "prefix", "vocab": vocab, "prefixes": list, "first_failure": f})
		}
		if i == n/3 {
			c.Sample(map[string]any{"part": "prefixes/subsets", "prefixes": list, "probe_addresses": len(probes)})
		}
	})
	finishPart(c, "prefixes/subsets", total, complete, map[string]any{
		"vocabulary": vocab, "subsets": n, "probe_addresses": len(probes),
		"representations": []string{"api(Insert)", "5 text variants > PrefixSetFromText", "PrefixSetToText round trip", "PrefixSetWriteText round trip", "double round trip", "file > Config.LoadPrefixSet"},
	})

	// every ordered sequence (with repetition) of <=3 prefixes: insertion order
	L := 3
	sizes := []int64{1}
	tot := int64(1)
	p := int64(1)
	for k := 1; k <= L; k++ {
		p *= int64(len(vocab))
		tot += p
		sizes = append(sizes, tot)
	}
	total, complete = parallel(tot, 64, func() string { return "" }, func(_ string, t *tally, idx int64) {
		i := idx
		k := 0
		for i >= sizes[k] {
			k++
		}
		if k > 0 {
			i -= sizes[k-1]
		}
		list := make([]string, k)
		for j := k - 1; j >= 0; j-- {
			list[j] = vocab[i%int64(len(vocab))]
			i /= int64(len(vocab))
		}
		fails, nontrivial := checkPrefixes(t, list, probes, "", false)
		c.Distinct(canon(list), nontrivial)
		for _, f := range fails {
			report(31<<48|idx, f.sig(), f.what(list), map[string]any{"part": "prefix", "vocab": vocab, "prefixes": list, "first_failure": f})
		}
	})
	finishPart(c, "prefixes/ordered-sequences", total, complete, map[string]any{"max_length": L, "index_space": tot, "order": "every ordered sequence with repetition"})

	// large sets: the text forms exceed the writer's 128 KiB buffer once or several times, so every way the
	// writer spills a line is taken; same representations, probes inside and just outside the generated ranges
	gen4 := func(n int) (l []string) {
		for i := 0; i < n; i++ {
			l = append(l, fmt.Sprintf("10.%d.%d.0/24", i>>8&0xff, i&0xff))
		}
		return
	}
	gen6 := func(n int) (l []string) {
		for i := 0; i < n; i++ {
			l = append(l, fmt.Sprintf("2001:db8:%x:%x::/64", i>>8&0xffff, i&0xff))
		}
		return
	}
	large := [][]string{gen4(9300), gen4(9500), gen4(20000), gen6(5900), gen6(6500), append(gen4(12000), gen6(2000)...)}
	largeProbes := append(append([]netip.Addr{}, probes...),
		netip.MustParseAddr("10.0.0.1"), netip.MustParseAddr("10.36.83.200"), netip.MustParseAddr("10.36.84.1"), netip.MustParseAddr("10.78.32.1"), netip.MustParseAddr("10.255.255.255"),
		netip.MustParseAddr("2001:db8:0:0::1"), netip.MustParseAddr("2001:db8:17:b::1"), netip.MustParseAddr("2001:db8:19:63::1"), netip.MustParseAddr("2001:db8:19:64::1"), netip.MustParseAddr("2001:db9::1"))
	total, complete = parallel(int64(len(large)), 1, mkdir, func(dir string, t *tally, i int64) {
		list := large[i]
		fails, nontrivial := checkPrefixes(t, list, largeProbes, dir, false)
		c.Distinct(fmt.Sprintf("pfx-large|%d|%s", len(list), list[len(list)-1]), nontrivial)
		for _, f := range fails {
			report(32<<48|i, f.sig(), fmt.Sprintf("set of %d generated prefixes (%s .. %s): %s", len(list), list[0], list[len(list)-1], f.what(list[:2])), map[string]any{"part": "prefix", "vocab": vocab, "prefixes": list, "first_failure": f})
		}
	})
	finishPart(c, "prefixes/large-sets", total, complete, map[string]any{"sizes": []int{9300, 9500, 20000, 5900, 6500, 14000}, "why": "text forms of 130 KiB to 280 KiB cross the writer's 128 KiB buffer"})
}

func replayPrefix(r map[string]any) []string {
	var list, vocab []string
	if a, ok := r["prefixes"].([]any); ok {
		for _, x := range a {
			list = append(list, x.(string))
		}
	}
	for _, x := range r["vocab"].([]any) {
		vocab = append(vocab, x.(string))
	}
	tmp, err := os.MkdirTemp("", "verif-c10-")
	if err != nil {
		harness.Fatal("%v", err)
	}
	defer os.RemoveAll(tmp)
	var t tally
	fails, _ := checkPrefixes(&t, list, prefixProbes(vocab), tmp, true)
	fmt.Printf("replay prefix case: %v, %d operations on the real code\n", list, t.ops)
	var msgs []string
	for _, f := range fails {
		msgs = append(msgs, f.what(list))
	}
	return msgs
}
