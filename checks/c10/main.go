// C10: domain, prefix and port sets mean the same in every representation.
//
// Bounded-exhaustive differential enumeration.  Every case builds the real
// matchers / sets of /repo through every construction path the loader, the
// router and the domain-set converter use (text, gob, text<->gob conversion,
// each matcher implementation, each builder, files on disk) and compares every
// answer with a small reference written from the property statement:
//
//	domain rule   : name == rule
//	suffix rule   : the labels of rule are a tail of the labels of name
//	keyword rule  : rule occurs in name as a substring
//	regexp rule   : Go regexp (compiled by the check itself) matches name
//	port set      : p is a member iff some token "p" or "a-b" (a<=p<=b) names it
//	prefix set    : addr is a member iff some prefix of the set contains it
//
// Files: main.go (frame), domain.go, ports.go, prefix.go.
package main

import (
	"fmt"
	"math/bits"
	"os"
	"runtime/pprof"
	"sort"
	"strings"
	"sync"
	"sync/atomic"
	"time"

	"verif/harness"
)

// ---------------------------------------------------------------------------
// bit vectors over a probe list

type bitvec []uint64

func newBitvec(n int) bitvec    { return make(bitvec, (n+63)/64) }
func (b bitvec) set(i int)      { b[i>>6] |= 1 << (uint(i) & 63) }
func (b bitvec) get(i int) bool { return b[i>>6]&(1<<(uint(i)&63)) != 0 }
func (b bitvec) orWith(o bitvec) {
	for i := range b {
		b[i] |= o[i]
	}
}
func (b bitvec) zero() {
	for i := range b {
		b[i] = 0
	}
}
func (b bitvec) firstDiff(o bitvec) int {
	for i := range b {
		if x := b[i] ^ o[i]; x != 0 {
			return i*64 + bits.TrailingZeros64(x)
		}
	}
	return -1
}
func (b bitvec) ones() int {
	n := 0
	for _, w := range b {
		n += bits.OnesCount64(w)
	}
	return n
}

// ---------------------------------------------------------------------------
// violations: keep, per signature, the earliest case of the enumeration so the
// reported counterexample does not depend on goroutine timing.

type found struct {
	order  int64
	sig    string
	what   string
	replay any
}

var (
	foundMu sync.Mutex
	foundBy = map[string]found{}
)

func report(order int64, sig, what string, replay any) {
	foundMu.Lock()
	defer foundMu.Unlock()
	if f, ok := foundBy[sig]; ok && f.order <= order {
		return
	}
	foundBy[sig] = found{order, sig, what, replay}
}

func flushViolations(c *harness.Check) {
	var fs []found
	for _, f := range foundBy {
		fs = append(fs, f)
	}
	sort.Slice(fs, func(i, j int) bool {
		if fs[i].order != fs[j].order {
			return fs[i].order < fs[j].order
		}
		return fs[i].sig < fs[j].sig
	})
	for _, f := range fs {
		c.Violation(f.sig, f.what, f.replay)
	}
}

// ---------------------------------------------------------------------------
// parallel enumeration over an index space

type tally struct {
	cases int64 // cases executed
	ops   int64 // operations applied to the real code (Match / Contains / build / parse / encode / decode)
	notes map[string]int64
}

func (t *tally) note(k string, n int64) {
	if t.notes == nil {
		t.notes = map[string]int64{}
	}
	t.notes[k] += n
}

func (t *tally) add(o *tally) {
	t.cases += o.cases
	t.ops += o.ops
	for k, v := range o.notes {
		t.note(k, v)
	}
}

var (
	deadline time.Time
	capped   atomic.Bool
)

// parallel runs fn(i) for i in [0,n) on all cores.  mk creates per-goroutine
// scratch state.  It returns the merged tally and whether the space was
// completed (false only if the wall-clock budget expired).
func parallel[S any](n int64, chunk int64, mk func() S, fn func(s S, t *tally, i int64)) (tally, bool) {
	workers := harness.Workers()
	var next atomic.Int64
	tallies := make([]tally, workers)
	var wg sync.WaitGroup
	var stopped atomic.Bool
	for w := 0; w < workers; w++ {
		wg.Add(1)
		go func(w int) {
			defer wg.Done()
			s := mk()
			t := &tallies[w]
			for {
				lo := next.Add(chunk) - chunk
				if lo >= n {
					return
				}
				if !deadline.IsZero() && time.Now().After(deadline) {
					stopped.Store(true)
					return
				}
				hi := min(lo+chunk, n)
				for i := lo; i < hi; i++ {
					fn(s, t, i)
				}
			}
		}(w)
	}
	wg.Wait()
	var total tally
	for i := range tallies {
		total.add(&tallies[i])
	}
	if stopped.Load() {
		capped.Store(true)
	}
	return total, !stopped.Load()
}

func finishPart(c *harness.Check, name string, t tally, complete bool, desc map[string]any) {
	c.Count(t.cases, 0, t.ops)
	desc["cases"] = t.cases
	desc["operations_on_real_code"] = t.ops
	desc["completed"] = complete
	if len(t.notes) > 0 {
		desc["notes"] = t.notes
	}
	c.Part(name, desc)
	if !complete {
		c.Cap(name + ": wall-clock budget expired before the index space was finished")
	}
	fmt.Fprintf(os.Stderr, "c10: part %-28s cases=%-9d ops=%-12d t=%.1fs\n", name, t.cases, t.ops, time.Since(t0).Seconds())
}

var t0 = time.Now()

// want implements the development filter C10_PARTS=substr[,substr...]; a
// filtered run is marked non-exhaustive.
var partFilter []string

func want(name string) bool {
	if len(partFilter) == 0 {
		return true
	}
	for _, f := range partFilter {
		if strings.Contains(name, f) {
			return true
		}
	}
	return false
}

// ---------------------------------------------------------------------------

func main() {
	c := harness.Start("C10")
	if c.Replay != "" {
		r, err := harness.ReplayFile(c.Replay)
		if err != nil {
			harness.Fatal("%v", err)
		}
		var msgs []string
		switch r["part"] {
		case "domain":
			msgs = replayDomain(r)
		case "port":
			msgs = replayPort(r)
		case "prefix":
			msgs = replayPrefix(r)
		default:
			harness.Fatal("replay file names unknown part %v", r["part"])
		}
		if len(msgs) > 0 {
			fmt.Printf("VIOLATION property=C10 replay=%s\n", c.Replay)
			for _, m := range msgs {
				fmt.Println("  " + m)
			}
			os.Exit(1)
		}
		fmt.Println("no violation on replay")
		os.Exit(0)
	}

	deadline = time.Now().Add(harness.Pick(c, 30*time.Minute, 6*time.Hour))
	if f := os.Getenv("C10_PARTS"); f != "" { // development aid
		partFilter = strings.Split(f, ",")
		c.Cap("development filter C10_PARTS=" + f + ": only matching parts were run")
	}
	if p := os.Getenv("C10_CPUPROFILE"); p != "" { // development aid
		f, err := os.Create(p)
		if err != nil {
			harness.Fatal("%v", err)
		}
		pprof.StartCPUProfile(f)
		defer pprof.StopCPUProfile()
	}
	c.Rule = "one case = one rule sequence (domain sets: ordered list of (kind,rule) lines; port sets: one range string (+ port list); prefix sets: one ordered prefix list) pushed through every representation of that part and probed on the whole probe list (domain: every name of <=N labels over the label vocabulary; ports: all of 1..65535; prefixes: every vocabulary prefix edge +-1 and its v4-mapped twin). distinct = distinct canonical rule set (sorted, de-duplicated; ports: the reference membership as merged range list); non-trivial = the reference answers both yes and no on the probe list. Enumeration is nested loops over the stated alphabets, simplest first; nothing is sampled."
	c.Assumptions = []string{
		"the reference regexp semantics is Go's regexp package compiled independently by the check (the statement names 'regular expression' without a dialect)",
		"a representation that refuses to load with an error gives no answer and is not a disagreement: the text form refuses the empty set (errEmptySet) and the empty rule string (\"suffix:\" is an invalid line); both are counted in the evidence, not reported",
		"capacity hints are varied within [0, count+1000]; hints large enough to exhaust memory are probed once and only noted",
		"port 0 is not a member of any port set and is never probed (PortSet.Contains(0) panics by documented contract)",
		"range strings whose union is all 65535 ports are refused by the route constructor (documented: pointless criteria) and counted, not compared through the router",
		"map iteration order inside the repo (Rules() of map-backed builders, WriteText line order) is not controlled; the answers must not depend on it, and the explicit insertion orders are enumerated separately",
	}

	domainParts(c)
	portParts(c)
	prefixParts(c)

	pprof.StopCPUProfile()
	flushViolations(c)
	c.Extra["tier_bounds"] = tierBounds(c)
	c.Finish()
}

func tierBounds(c *harness.Check) map[string]any {
	return map[string]any{
		"domain_labels":          domLabels,
		"domain_probe_depth":     harness.Pick(c, "names of <=4 labels", "names of <=4 labels; <=5 labels in the deep-probes and threshold parts"),
		"suffix_sequence_length": harness.Pick(c, "<=2 over 84 names and <=3 over 39 names", "<=3 over 84 names and <=4 over 39 names"),
		"mixed_sequence_length":  harness.Pick(c, "<=3, every order, 36-rule alphabet; <=2 over 100 rules with every text variant", "<=3, every order, 100-rule alphabet; <=2 over 200 rules with every text variant"),
		"threshold_sizes":        thresholdSizes,
		"port_boundaries":        portBoundaries(c),
		"prefix_vocabulary":      len(prefixVocab(c)),
	}
}
