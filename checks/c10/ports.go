package main

import (
	"context"
	"fmt"
	"net/netip"
	"sort"
	"strconv"
	"strings"

	"github.com/database64128/shadowsocks-go/conn"
	"github.com/database64128/shadowsocks-go/portset"
	"github.com/database64128/shadowsocks-go/router"

	"verif/harness"
)

func portBoundaries(c *harness.Check) []int {
	if c.Thorough() {
		return []int{1, 2, 3, 63, 64, 65, 127, 128, 129, 32768, 65472, 65534, 65535}
	}
	return []int{1, 2, 63, 64, 65, 127, 128, 65534, 65535}
}

type portArr [1024]uint64 // bit p = port p is a member

func (a *portArr) set(p int)      { a[p>>6] |= 1 << (uint(p) & 63) }
func (a *portArr) get(p int) bool { return a[p>>6]&(1<<(uint(p)&63)) != 0 }

// refPorts is the reference: the union of the tokens, read as the statement
// says ("p" names p, "a-b" names a..b).
func refPorts(spec string, list []uint16) (ref portArr, count, runs, first int) {
	for _, p := range list {
		ref.set(int(p))
	}
	if spec != "" {
		for _, tok := range strings.Split(spec, ",") {
			a, b, isRange := strings.Cut(tok, "-")
			from, _ := strconv.Atoi(a)
			to := from
			if isRange {
				to, _ = strconv.Atoi(b)
			}
			for p := from; p <= to; p++ {
				ref.set(p)
			}
		}
	}
	in := false
	for p := 1; p <= 65535; p++ {
		if ref.get(p) {
			count++
			if !in {
				runs++
				in = true
				if first == 0 {
					first = p
				}
			}
		} else {
			in = false
		}
	}
	return
}

func refRangesKey(ref *portArr) string {
	var sb strings.Builder
	sb.WriteString("port|")
	start := 0
	for p := 1; p <= 65536; p++ {
		m := p <= 65535 && ref.get(p)
		if m && start == 0 {
			start = p
		}
		if !m && start != 0 {
			fmt.Fprintf(&sb, "%d-%d,", start, p-1)
			start = 0
		}
	}
	return sb.String()
}

type portFail struct {
	Rep    string `json:"representation"`
	Kind   string `json:"failure"`
	Port   int    `json:"port,omitempty"`
	Detail string `json:"detail,omitempty"`
}

func (f portFail) sig() string { return "port:" + f.Rep + ":" + f.Kind }
func (f portFail) what(spec string, list []uint16) string {
	s := fmt.Sprintf("range string %q", spec)
	if len(list) > 0 {
		s += fmt.Sprintf(" + port list %v", list)
	}
	s += " via " + f.Rep + ": "
	switch f.Kind {
	case "false-positive":
		return s + fmt.Sprintf("port %d reported as member, reference says not", f.Port)
	case "false-negative":
		return s + fmt.Sprintf("port %d reported as non-member, reference says member", f.Port)
	}
	return s + f.Kind + ": " + f.Detail
}

var (
	probeIP  = netip.MustParseAddr("192.0.2.1")
	routeCtx = context.Background()
)

// checkPorts pushes one port-set description through the bit set, the range
// list, and the route constructor's choice (as destination and as source
// criterion, plain and inverted), probing all of 1..65535.
func checkPorts(t *tally, spec string, list []uint16, variant int64, fourRoutes, all bool) (fails []portFail, key string) {
	ref, count, runs, first := refPorts(spec, list)
	key = refRangesKey(&ref)
	t.cases++
	fail := func(f portFail) bool {
		fails = append(fails, f)
		return !all
	}
	cmpAll := func(rep string, invert bool, contains func(p uint16) bool) (stop bool) {
		var pan string
		bad, badGot := 0, false
		func() {
			defer func() {
				if r := recover(); r != nil {
					pan = fmt.Sprint(r)
				}
			}()
			for p := 1; p <= 65535; p++ {
				got := contains(uint16(p))
				if got != (ref.get(p) != invert) && bad == 0 {
					bad, badGot = p, got
				}
			}
		}()
		t.ops += 65535
		if pan != "" {
			return fail(portFail{Rep: rep, Kind: "panic", Detail: pan})
		}
		if bad != 0 {
			k := "false-negative"
			if badGot != invert {
				k = "false-positive"
			}
			return fail(portFail{Rep: rep, Kind: k, Port: bad})
		}
		return false
	}

	// portset directly
	var ps portset.PortSet
	var perr error
	var pan string
	func() {
		defer func() {
			if r := recover(); r != nil {
				pan = fmt.Sprint(r)
			}
		}()
		for _, p := range list {
			ps.Add(p)
		}
		perr = ps.Parse(spec)
	}()
	t.ops++
	if pan != "" {
		fail(portFail{Rep: "PortSet.Parse", Kind: "panic", Detail: pan})
		return
	}
	if perr != nil {
		fail(portFail{Rep: "PortSet.Parse", Kind: "load-error", Detail: perr.Error()})
		return
	}
	if cmpAll("bitset(PortSet.Contains)", false, ps.Contains) {
		return
	}
	if got := int(ps.Count()); got != count {
		if fail(portFail{Rep: "PortSet.Count", Kind: "wrong-value", Detail: fmt.Sprintf("Count() = %d, the set has %d ports", got, count)}) {
			return
		}
	}
	if got := int(ps.First()); got != first {
		if fail(portFail{Rep: "PortSet.First", Kind: "wrong-value", Detail: fmt.Sprintf("First() = %d, the smallest member is %d", got, first)}) {
			return
		}
	}
	if got := int(ps.RangeCount()); got != runs {
		if fail(portFail{Rep: "PortSet.RangeCount", Kind: "wrong-value", Detail: fmt.Sprintf("RangeCount() = %d, the set has %d maximal runs", got, runs)}) {
			return
		}
	}
	t.ops += 3
	rs := ps.RangeSet()
	t.ops++
	if cmpAll("rangelist(PortSet.RangeSet.Contains)", false, rs.Contains) {
		return
	}

	// the route constructor's choice
	type rv struct {
		name   string
		cfg    router.RouteConfig
		source bool
		invert bool
	}
	all4 := []rv{
		{"route(toPortRanges)", router.RouteConfig{ToPortRanges: spec, ToPorts: list}, false, false},
		{"route(fromPortRanges,inverted)", router.RouteConfig{FromPortRanges: spec, FromPorts: list, InvertFromPorts: true}, true, true},
		{"route(fromPortRanges)", router.RouteConfig{FromPortRanges: spec, FromPorts: list}, true, false},
		{"route(toPortRanges,inverted)", router.RouteConfig{ToPortRanges: spec, ToPorts: list, InvertToPorts: true}, false, true},
	}
	rvs := all4
	if !fourRoutes { // two of the four per case, alternating with the case index
		rvs = all4[:2]
		if variant%2 == 1 {
			rvs = all4[2:]
		}
	}
	for _, v := range rvs {
		v.cfg.Name = "c10"
		v.cfg.Client = "reject"
		var route router.Route
		var err error
		pan = ""
		func() {
			defer func() {
				if r := recover(); r != nil {
					pan = fmt.Sprint(r)
				}
			}()
			route, err = v.cfg.Route(nil, nil, nil, nil, nil, nil, nil, nil, nil)
		}()
		t.ops++
		if pan != "" {
			if fail(portFail{Rep: v.name, Kind: "panic", Detail: "RouteConfig.Route: " + pan}) {
				return
			}
			continue
		}
		if err != nil {
			if count == 65535 {
				t.note("route refused: all 65535 ports (pointless criteria)", 1)
				continue
			}
			if fail(portFail{Rep: v.name, Kind: "load-error", Detail: err.Error()}) {
				return
			}
			continue
		}
		kinds := route.C10CriterionTypes()
		rep := "none"
		if len(kinds) == 1 {
			rep = strings.TrimPrefix(strings.TrimPrefix(kinds[0], "!"), "*")
			rep = strings.TrimPrefix(rep, "router.")
		}
		t.note("route criterion "+rep, 1)
		var merr error
		stop := cmpAll(v.name+"["+rep+"]", v.invert, func(p uint16) bool {
			ri := router.RequestInfo{SourceAddrPort: netip.AddrPortFrom(probeIP, 40000), TargetAddr: conn.AddrFromIPAndPort(probeIP, 443)}
			if v.source {
				ri.SourceAddrPort = netip.AddrPortFrom(probeIP, p)
			} else {
				ri.TargetAddr = conn.AddrFromIPAndPort(probeIP, p)
			}
			ok, err := route.Match(routeCtx, 0, ri)
			if err != nil && merr == nil {
				merr = err
			}
			return ok
		})
		if stop {
			return
		}
		if merr != nil {
			if fail(portFail{Rep: v.name + "[" + rep + "]", Kind: "match-error", Detail: merr.Error()}) {
				return
			}
		}
	}
	return
}

func portTokens(b []int) []string {
	var toks []string
	for _, x := range b {
		toks = append(toks, strconv.Itoa(x))
	}
	for i, x := range b {
		for _, y := range b[i+1:] {
			toks = append(toks, fmt.Sprintf("%d-%d", x, y))
		}
	}
	return toks
}

// manyRangeSpecs builds sets of n disjoint, non-adjacent runs (n around the
// 16-range switch from range list to bit set) placed on 64-port block edges.
func manyRangeSpecs() (specs []string, names []string) {
	fams := []struct {
		name string
		tok  func(k int) string
	}{
		{"odd singles 1,3,5..", func(k int) string { return strconv.Itoa(2*k + 1) }},
		{"block straddlers 64k-1..64k+1", func(k int) string { return fmt.Sprintf("%d-%d", 64*(k+1)-1, 64*(k+1)+1) }},
		{"top singles 65535,65533..", func(k int) string { return strconv.Itoa(65535 - 2*k) }},
		{"whole blocks 128k..128k+63", func(k int) string { return fmt.Sprintf("%d-%d", max(1, 128*k), 128*k+63) }},
		{"adjacent tokens merging into one run 4k+1-4k+2,4k+3", func(k int) string { return fmt.Sprintf("%d-%d,%d", 4*k+1, 4*k+2, 4*k+3) }},
		{"block-edge singles 63,128,191,256..", func(k int) string {
			if k%2 == 0 {
				return strconv.Itoa(64*(k+1) - 1)
			}
			return strconv.Itoa(64 * (k + 1))
		}},
		{"last-block runs descending from 65535", func(k int) string { return fmt.Sprintf("%d-%d", 65535-4*k-1, 65535-4*k) }},
	}
	for _, f := range fams {
		for n := 15; n <= 20; n++ {
			var toks []string
			for k := 0; k < n; k++ {
				toks = append(toks, f.tok(k))
			}
			specs = append(specs, strings.Join(toks, ","))
			names = append(names, fmt.Sprintf("%s x%d", f.name, n))
		}
	}
	return
}

type portCase struct {
	spec string
	list []uint16
}

func portCases(c *harness.Check) (cases []portCase, desc map[string]any) {
	b := portBoundaries(c)
	toks := portTokens(b)
	n := len(toks)
	// singles
	for _, t := range toks {
		cases = append(cases, portCase{spec: t})
	}
	n1 := len(cases)
	// ordered pairs
	for _, t1 := range toks {
		for _, t2 := range toks {
			cases = append(cases, portCase{spec: t1 + "," + t2})
		}
	}
	n2 := len(cases) - n1
	// unordered triples with repetition
	for i := 0; i < n; i++ {
		for j := i; j < n; j++ {
			for k := j; k < n; k++ {
				cases = append(cases, portCase{spec: toks[i] + "," + toks[j] + "," + toks[k]})
			}
		}
	}
	n3 := len(cases) - n1 - n2
	// port list (toPorts/fromPorts) alone and combined with a range string
	for _, x := range b {
		cases = append(cases, portCase{list: []uint16{uint16(x)}})
		for _, y := range b {
			if y > x {
				cases = append(cases, portCase{list: []uint16{uint16(y), uint16(x)}})
			}
		}
		for _, t := range toks {
			cases = append(cases, portCase{spec: t, list: []uint16{uint16(x)}})
		}
	}
	n4 := len(cases) - n1 - n2 - n3
	// many-range sets, alone and with each boundary token added
	many, names := manyRangeSpecs()
	for _, m := range many {
		cases = append(cases, portCase{spec: m})
		for _, t := range toks {
			cases = append(cases, portCase{spec: m + "," + t})
		}
	}
	n5 := len(cases) - n1 - n2 - n3 - n4
	desc = map[string]any{
		"boundaries": b, "tokens": n, "token_forms": "every boundary as single port, every pair a<b as range a-b",
		"single_token_sets": n1, "ordered_pairs": n2, "unordered_triples_with_repetition": n3, "port_list_cases": n4,
		"many_range_families": names, "many_range_cases": n5,
		"probes_per_representation": 65535,
		"representations":           []string{"bitset(PortSet.Contains)", "rangelist(PortSet.RangeSet.Contains)", "route(toPortRanges)", "route(fromPortRanges,inverted)", "thorough: route(fromPortRanges), route(toPortRanges,inverted)", "PortSet.Count/First/RangeCount"},
	}
	return
}

func replayOfPort(pc portCase, f portFail) map[string]any {
	l := make([]int, len(pc.list))
	for i, p := range pc.list {
		l[i] = int(p)
	}
	return map[string]any{"part": "port", "spec": pc.spec, "list": l, "first_failure": f}
}

func portParts(c *harness.Check) {
	if !want("ports") {
		return
	}
	cases, desc := portCases(c)
	four := c.Thorough()
	total, complete := parallel(int64(len(cases)), 4, func() struct{} { return struct{}{} },
		func(_ struct{}, t *tally, i int64) {
			pc := cases[i]
			fails, key := checkPorts(t, pc.spec, pc.list, i, four, false)
			c.Distinct(key, true)
			for _, f := range fails {
				report(20<<48|i, f.sig(), f.what(pc.spec, pc.list), replayOfPort(pc, f))
			}
			if i == int64(len(cases))-1 {
				ref, count, runs, first := refPorts(pc.spec, pc.list)
				_ = ref
				c.Sample(map[string]any{"part": "ports", "range_string": pc.spec, "port_list": pc.list, "members": count, "maximal_runs": runs, "smallest": first, "ports_probed": "1..65535"})
			}
		})
	// which representations did the route constructor pick
	var reps []string
	for k := range total.notes {
		reps = append(reps, k)
	}
	sort.Strings(reps)
	finishPart(c, "ports", total, complete, desc)

	// invalid range strings: recorded only
	out := map[string]string{}
	for _, s := range []string{"0", "0-5", "5-5", "6-5", "65536", "1-65536", "1,", ",1", "1,,2", "-", "1-", "-1", " 1", "1-2-3", "a"} {
		var ps portset.PortSet
		err := func() (err error) {
			defer func() {
				if r := recover(); r != nil {
					err = fmt.Errorf("panic: %v", r)
				}
			}()
			return ps.Parse(s)
		}()
		if err != nil {
			out[s] = "refused: " + err.Error()
		} else {
			out[s] = fmt.Sprintf("accepted (%d ports)", ps.Count())
		}
	}
	c.Part("ports/invalid-strings (recorded, never a verdict)", map[string]any{"outcomes": out})
}

func replayPort(r map[string]any) []string {
	spec, _ := r["spec"].(string)
	var list []uint16
	for _, p := range harness.Ints(r["list"]) {
		list = append(list, uint16(p))
	}
	var t tally
	fails, _ := checkPorts(&t, spec, list, 0, true, true)
	fmt.Printf("replay port case: %q list=%v, %d operations on the real code\n", spec, list, t.ops)
	var msgs []string
	for _, f := range fails {
		msgs = append(msgs, f.what(spec, list))
	}
	return msgs
}
