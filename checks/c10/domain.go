package main

import (
	"bytes"
	"fmt"
	"os"
	"path/filepath"
	"regexp"
	"slices"
	"sort"
	"strings"

	"github.com/database64128/shadowsocks-go/domainset"

	"verif/harness"
)

// ---------------------------------------------------------------------------
// alphabets

var (
	domLabels      = []string{"a", "b", "ab", ""} // "ab" separates substring from label-boundary matching; "" gives empty labels and trailing dots
	domLabelsSmall = []string{"a", "b", ""}
	thresholdSizes = []int{0, 1, 2, 3, 4, 5, 6, 15, 16, 17, 18, 31, 32, 33, 99, 100, 101}
	thresholdCross = []int{0, 1, 4, 5, 16, 17, 100}
	regexpAlphabet = []string{`^a\.b$`, `a`, `^b`, `b$`, `\.$`, `^$`, `a\.b`, `(^|\.)ab$`, `^[ab]+\.a$`, `^\.`, `\.\.`, ``}
)

// genNames lists every name of 1..maxLabels labels over the vocabulary,
// fewest labels first.  Labels are joined with "."; an empty label therefore
// gives leading dots, double dots and trailing dots, and the single empty label
// is the empty string.
func genNames(labels []string, maxLabels int) []string {
	var out, level []string
	for k := 1; k <= maxLabels; k++ {
		var nl []string
		if k == 1 {
			nl = append(nl, labels...)
		} else {
			for _, l := range labels {
				for _, n := range level {
					nl = append(nl, l+"."+n)
				}
			}
		}
		level = nl
		out = append(out, nl...)
	}
	return out
}

// item is one rule line: kind 'D' domain, 'S' suffix, 'K' keyword, 'X' regexp.
type item struct {
	K byte
	R string
}

var kindIndex = map[byte]int{'D': 0, 'S': 1, 'K': 2, 'X': 3}
var kindPrefix = map[byte]string{'D': "domain:", 'S': "suffix:", 'K': "keyword:", 'X': "regexp:"}

func (it item) line() string { return kindPrefix[it.K] + it.R }

func itemsJSON(seq []item) [][2]string {
	out := make([][2]string, len(seq))
	for i, it := range seq {
		out[i] = [2]string{string(it.K), it.R}
	}
	return out
}

func canonKey(seq []item) string {
	ls := make([]string, 0, len(seq))
	for _, it := range seq {
		ls = append(ls, string(it.K)+it.R)
	}
	sort.Strings(ls)
	ls = slices.Compact(ls)
	return "dom|" + strings.Join(ls, "\x00")
}

// ---------------------------------------------------------------------------
// reference (from the statement)

func refLabelTail(name, rule string) bool {
	n := strings.Split(name, ".")
	r := strings.Split(rule, ".")
	if len(r) > len(n) {
		return false
	}
	off := len(n) - len(r)
	for i := range r {
		if n[off+i] != r[i] {
			return false
		}
	}
	return true
}

func refSubstring(name, rule string) bool {
	for i := 0; i+len(rule) <= len(name); i++ {
		if name[i:i+len(rule)] == rule {
			return true
		}
	}
	return false
}

// ---------------------------------------------------------------------------
// context: probe list and per-rule reference answer vectors

type domCtx struct {
	labels []string
	depth  int
	chain  int
	probes []string
	refs   map[item]bitvec
}

func newDomCtx(labels []string, depth, chain int) *domCtx {
	dc := &domCtx{labels: labels, depth: depth, chain: chain, refs: map[item]bitvec{}}
	dc.probes = genNames(labels, depth)
	for i := 0; i <= chain; i++ {
		base := strings.Repeat("a.", i)
		dc.probes = append(dc.probes, base+"b", base+"ab", "b."+base+"b", base+"b.")
	}
	sort.Strings(dc.probes)
	dc.probes = slices.Compact(dc.probes)
	sort.SliceStable(dc.probes, func(i, j int) bool { return len(dc.probes[i]) < len(dc.probes[j]) })
	return dc
}

func (dc *domCtx) computeRef(it item) (bitvec, error) {
	v := newBitvec(len(dc.probes))
	var re *regexp.Regexp
	if it.K == 'X' {
		var err error
		re, err = regexp.Compile(it.R)
		if err != nil {
			return nil, err
		}
	}
	for i, p := range dc.probes {
		var m bool
		switch it.K {
		case 'D':
			m = p == it.R
		case 'S':
			m = refLabelTail(p, it.R)
		case 'K':
			m = refSubstring(p, it.R)
		case 'X':
			m = re.MatchString(p)
		}
		if m {
			v.set(i)
		}
	}
	return v, nil
}

// precompute fills the cache (single-threaded, before a parallel part).
func (dc *domCtx) precompute(items []item) {
	for _, it := range items {
		if _, ok := dc.refs[it]; !ok {
			v, err := dc.computeRef(it)
			if err == nil {
				dc.refs[it] = v
			}
		}
	}
}

func (dc *domCtx) ref(it item) (bitvec, error) {
	if v, ok := dc.refs[it]; ok {
		return v, nil
	}
	return dc.computeRef(it)
}

// ---------------------------------------------------------------------------
// text rendering

type textVariant struct {
	CRLF    bool `json:"crlf"`
	NoFinal bool `json:"noFinalNewline"`
	Hint    int  `json:"hint"`  // 0 exact 1 none 2 zeros 3 +1000 4 rotated 5 one-short
	Noise   int  `json:"noise"` // 0 none 1 blank lines 2 comment lines 3 blank lines before the hint 4 comment before the hint + trailing comments
}

var hintNames = []string{"exact", "none", "zeros", "plus1000", "rotated", "oneShort"}
var noiseNames = []string{"none", "blankLines", "commentLines", "blankBeforeHint", "commentBeforeHint"}

func (v textVariant) deviations() int {
	n := 0
	if v.CRLF {
		n++
	}
	if v.NoFinal {
		n++
	}
	if v.Hint != 0 {
		n++
	}
	if v.Noise != 0 {
		n++
	}
	return n
}

func (v textVariant) String() string {
	var fs []string
	if v.CRLF {
		fs = append(fs, "crlf")
	}
	if v.NoFinal {
		fs = append(fs, "noFinalNewline")
	}
	if v.Hint != 0 {
		fs = append(fs, "hint="+hintNames[v.Hint])
	}
	if v.Noise != 0 {
		fs = append(fs, "noise="+noiseNames[v.Noise])
	}
	if len(fs) == 0 {
		return "canonical"
	}
	return strings.Join(fs, ",")
}

// allVariants lists every combination, fewest deviations from the canonical
// form first (so the first failing variant names the simplest cause).
func allVariants() []textVariant {
	var vs []textVariant
	for _, crlf := range []bool{false, true} {
		for _, nf := range []bool{false, true} {
			for h := range hintNames {
				for n := range noiseNames {
					vs = append(vs, textVariant{crlf, nf, h, n})
				}
			}
		}
	}
	sort.SliceStable(vs, func(i, j int) bool { return vs[i].deviations() < vs[j].deviations() })
	return vs
}

func renderText(seq []item, v textVariant) string {
	var cnt [4]int
	for _, it := range seq {
		cnt[kindIndex[it.K]]++
	}
	var lines []string
	switch v.Noise {
	case 3:
		lines = append(lines, "", "")
	case 4:
		lines = append(lines, "# a comment before the capacity hint turns the hint into a plain comment")
	}
	h := cnt
	switch v.Hint {
	case 2:
		h = [4]int{}
	case 3:
		for i := range h {
			h[i] += 1000
		}
	case 4:
		h = [4]int{cnt[1], cnt[2], cnt[3], cnt[0]}
	case 5:
		for i := range h {
			h[i] = max(0, h[i]-1)
		}
	}
	if v.Hint != 1 {
		lines = append(lines, fmt.Sprintf("# shadowsocks-go domain set capacity hint %d %d %d %d DSKR", h[0], h[1], h[2], h[3]))
	}
	for i, it := range seq {
		switch v.Noise {
		case 1:
			lines = append(lines, "")
		case 2:
			switch i % 4 {
			case 0:
				lines = append(lines, "# comment")
			case 1:
				lines = append(lines, "#")
			case 2:
				lines = append(lines, "#suffix:commented.out")
			case 3:
				lines = append(lines, "# shadowsocks-go domain set capacity hint 9 9 9 9 DSKR")
			}
		}
		lines = append(lines, it.line())
	}
	switch v.Noise {
	case 1:
		lines = append(lines, "", "")
	case 2, 4:
		lines = append(lines, "# trailing comment", "#keyword:zz")
	}
	eol := "\n"
	if v.CRLF {
		eol = "\r\n"
	}
	s := strings.Join(lines, eol)
	if !v.NoFinal {
		s += eol
	}
	return s
}

// ---------------------------------------------------------------------------
// construction paths

type DS = domainset.DomainSet

func appendTo(b domainset.MatcherBuilder) (DS, error) {
	ms, err := b.AppendTo(nil)
	return DS(ms), err
}

func insertAll(b domainset.MatcherBuilder, rules []string) domainset.MatcherBuilder {
	for _, r := range rules {
		b.Insert(r)
	}
	return b
}

type kindRep struct {
	name  string
	build func(rules []string) (DS, error)
}

// per-kind matcher implementations, each reached the ways the package offers
var directReps = map[byte][]kindRep{
	'D': {
		{"linear.raw", func(r []string) (DS, error) { return DS{domainset.DomainLinearMatcher(slices.Clone(r))}, nil }},
		{"map.FromSlice.raw", func(r []string) (DS, error) { return DS{domainset.DomainMapMatcherFromSlice(r)}, nil }},
		{"binsearch.FromSlice.raw", func(r []string) (DS, error) { return DS{domainset.DomainBinarySearchMatcherFromSlice(r)}, nil }},
		{"binsearch.FromSeq.raw", func(r []string) (DS, error) {
			return DS{domainset.DomainBinarySearchMatcherFromSeq(len(r), slices.Values(r))}, nil
		}},
		{"linear.Insert.AppendTo", func(r []string) (DS, error) { return appendTo(insertAll(domainset.NewDomainLinearMatcher(0), r)) }},
		{"linear.FromSeq.AppendTo", func(r []string) (DS, error) {
			m := domainset.DomainLinearMatcherFromSeq(len(r), slices.Values(r))
			return appendTo(&m)
		}},
		{"map.Insert.AppendTo", func(r []string) (DS, error) { return appendTo(insertAll(domainset.NewDomainMapMatcher(0), r)) }},
		{"map.FromSeq.AppendTo", func(r []string) (DS, error) {
			m := domainset.DomainMapMatcherFromSeq(len(r), slices.Values(r))
			return appendTo(&m)
		}},
		{"binsearch.Insert.AppendTo", func(r []string) (DS, error) {
			return appendTo(insertAll(domainset.NewDomainBinarySearchMatcher(0), r))
		}},
	},
	'S': {
		{"linear.raw", func(r []string) (DS, error) { return DS{domainset.SuffixLinearMatcher(slices.Clone(r))}, nil }},
		{"map.FromSlice.raw", func(r []string) (DS, error) { return DS{domainset.SuffixMapMatcherFromSlice(r)}, nil }},
		{"trie.FromSlice.raw", func(r []string) (DS, error) { return DS{domainset.DomainSuffixTrieFromSlice(r)}, nil }},
		{"trie.FromSeq.raw", func(r []string) (DS, error) {
			return DS{domainset.DomainSuffixTrieFromSeq(len(r), slices.Values(r))}, nil
		}},
		{"trie.Insert.AppendTo", func(r []string) (DS, error) {
			return appendTo(insertAll(domainset.NewDomainSuffixTrieMatcherBuilder(0), r))
		}},
		{"linear.Insert.AppendTo", func(r []string) (DS, error) { return appendTo(insertAll(domainset.NewSuffixLinearMatcher(0), r)) }},
		{"linear.FromSeq.AppendTo", func(r []string) (DS, error) {
			m := domainset.SuffixLinearMatcherFromSeq(len(r), slices.Values(r))
			return appendTo(&m)
		}},
		{"map.Insert.AppendTo", func(r []string) (DS, error) { return appendTo(insertAll(domainset.NewSuffixMapMatcher(0), r)) }},
		{"map.FromSeq.AppendTo", func(r []string) (DS, error) {
			m := domainset.SuffixMapMatcherFromSeq(len(r), slices.Values(r))
			return appendTo(&m)
		}},
	},
	'K': {
		{"linear.Insert.AppendTo", func(r []string) (DS, error) { return appendTo(insertAll(domainset.NewKeywordLinearMatcher(0), r)) }},
		{"linear.FromSeq.raw", func(r []string) (DS, error) {
			return DS{domainset.KeywordLinearMatcherFromSeq(len(r), slices.Values(r))}, nil
		}},
	},
	'X': {
		{"builder.Insert.AppendTo", func(r []string) (DS, error) { return appendTo(insertAll(domainset.NewRegexpMatcherBuilder(0), r)) }},
		{"builder.FromSeq.AppendTo", func(r []string) (DS, error) {
			m := domainset.RegexpMatcherBuilderFromSeq(len(r), slices.Values(r))
			return appendTo(&m)
		}},
	},
}

// Rules() conversions between builders of one kind (what AppendTo migrations
// and BuilderGobFromBuilder do): every source builder type x every target type.
type convSrc struct {
	name string
	mk   func() domainset.MatcherBuilder
}
type convDst struct {
	name string
	mk   func(b domainset.MatcherBuilder) (DS, error)
}

var convSrcs = map[byte][]convSrc{
	'D': {{"linear", func() domainset.MatcherBuilder { return domainset.NewDomainLinearMatcher(0) }},
		{"map", func() domainset.MatcherBuilder { return domainset.NewDomainMapMatcher(0) }},
		{"binsearch", func() domainset.MatcherBuilder { return domainset.NewDomainBinarySearchMatcher(0) }}},
	'S': {{"linear", func() domainset.MatcherBuilder { return domainset.NewSuffixLinearMatcher(0) }},
		{"map", func() domainset.MatcherBuilder { return domainset.NewSuffixMapMatcher(0) }},
		{"trie", func() domainset.MatcherBuilder { return domainset.NewDomainSuffixTrieMatcherBuilder(0) }}},
}
var convDsts = map[byte][]convDst{
	'D': {{"linear", func(b domainset.MatcherBuilder) (DS, error) {
		m := domainset.DomainLinearMatcherFromSeq(b.Rules())
		return appendTo(&m)
	}}, {"map", func(b domainset.MatcherBuilder) (DS, error) {
		m := domainset.DomainMapMatcherFromSeq(b.Rules())
		return appendTo(&m)
	}}, {"binsearch", func(b domainset.MatcherBuilder) (DS, error) {
		return DS{domainset.DomainBinarySearchMatcherFromSeq(b.Rules())}, nil
	}}},
	'S': {{"linear", func(b domainset.MatcherBuilder) (DS, error) {
		m := domainset.SuffixLinearMatcherFromSeq(b.Rules())
		return appendTo(&m)
	}}, {"map", func(b domainset.MatcherBuilder) (DS, error) {
		m := domainset.SuffixMapMatcherFromSeq(b.Rules())
		return appendTo(&m)
	}}, {"trie", func(b domainset.MatcherBuilder) (DS, error) {
		return DS{domainset.DomainSuffixTrieFromSeq(b.Rules())}, nil
	}}},
}

var builderKinds = []string{"linear,linear", "map,map", "binsearch,trie"}

func mkBuilder(kind int) domainset.Builder {
	switch kind {
	case 0:
		return domainset.Builder{domainset.NewDomainLinearMatcher(0), domainset.NewSuffixLinearMatcher(0), domainset.NewKeywordLinearMatcher(0), domainset.NewRegexpMatcherBuilder(0)}
	case 1:
		return domainset.Builder{domainset.NewDomainMapMatcher(0), domainset.NewSuffixMapMatcher(0), domainset.NewKeywordLinearMatcher(0), domainset.NewRegexpMatcherBuilder(0)}
	default:
		return domainset.Builder{domainset.NewDomainBinarySearchMatcher(0), domainset.NewDomainSuffixTrieMatcherBuilder(0), domainset.NewKeywordLinearMatcher(0), domainset.NewRegexpMatcherBuilder(0)}
	}
}

// setPath names one way to obtain a DomainSet: a source (0..2 = builder kinds
// filled through Insert, 3 = BuilderFromText of the canonical text), followed
// by conversions 'g' (WriteGob -> BuilderFromGobString) and 't' (WriteText ->
// BuilderFromText) as the converter performs them.
type setPath struct {
	src  int
	conv string
}

func (p setPath) String() string {
	s := "text"
	if p.src < 3 {
		s = "builder[" + builderKinds[p.src] + "]"
	}
	for _, ch := range p.conv {
		if ch == 'g' {
			s += ">gob"
		} else {
			s += ">text"
		}
	}
	return s + ">set"
}

var (
	shortPaths = []setPath{{3, ""}, {3, "g"}, {3, "gt"}, {0, "g"}, {2, "t"}, {1, ""}}
	fullPaths  = func() []setPath {
		var ps []setPath
		for _, src := range []int{3, 0, 1, 2} {
			for _, conv := range []string{"", "g", "t", "gt", "tg", "gg", "tt"} {
				ps = append(ps, setPath{src, conv})
			}
		}
		return ps
	}()
)

func convert(b domainset.Builder, conv string, t *tally) (domainset.Builder, error) {
	for _, ch := range conv {
		var buf bytes.Buffer
		var err error
		t.ops += 2
		if ch == 'g' {
			if err = b.WriteGob(&buf); err != nil {
				return b, fmt.Errorf("WriteGob: %w", err)
			}
			b, err = domainset.BuilderFromGobString(buf.String())
			if err != nil {
				return b, fmt.Errorf("BuilderFromGobString: %w", err)
			}
		} else {
			if err = b.WriteText(&buf); err != nil {
				return b, fmt.Errorf("WriteText: %w", err)
			}
			b, err = domainset.BuilderFromText(buf.String())
			if err != nil {
				return b, fmt.Errorf("BuilderFromText(WriteText output): %w", err)
			}
		}
	}
	return b, nil
}

// ---------------------------------------------------------------------------
// one case

type domOpts struct {
	direct   bool          // per-kind matcher implementations and Rules() conversions
	paths    []setPath     // set-level construction paths
	variants []textVariant // text variants parsed directly into a set
	file     bool          // domainset.Config{Type,Path}.DomainSet() on files in a scratch directory
	clearX   bool          // converter's -skipRegexp: Clear() the regexp builder before writing
	all      bool          // collect every failure (replay) instead of stopping at the first
	detOnly  bool          // direct representations only, skipping those whose insertion order comes from Go map iteration
	nocount  bool          // do not count this run as a case (root-cause attribution re-runs)
}

type domFail struct {
	Rep    string `json:"representation"`
	Kind   string `json:"failure"`
	Probe  string `json:"probe"`
	Detail string `json:"detail,omitempty"`
}

func (f domFail) sig() string { return "domain:" + f.Rep + ":" + f.Kind }
func (f domFail) what(seq []item) string {
	var ls []string
	for _, it := range seq {
		ls = append(ls, fmt.Sprintf("%q", it.line()))
	}
	s := fmt.Sprintf("rules [%s] via %s: ", strings.Join(ls, " "), f.Rep)
	switch f.Kind {
	case "false-positive":
		s += fmt.Sprintf("Match(%q) = true, reference says false", f.Probe)
	case "false-negative":
		s += fmt.Sprintf("Match(%q) = false, reference says true", f.Probe)
	default:
		s += f.Kind + ": " + f.Detail
	}
	return s
}

type domWorker struct {
	exp    [4]bitvec
	all    bitvec
	noX    bitvec
	got    bitvec
	tmpdir string
}

func (dc *domCtx) newWorker(tmpdir string) *domWorker {
	w := &domWorker{tmpdir: tmpdir}
	for i := range w.exp {
		w.exp[i] = newBitvec(len(dc.probes))
	}
	w.all = newBitvec(len(dc.probes))
	w.noX = newBitvec(len(dc.probes))
	w.got = newBitvec(len(dc.probes))
	return w
}

func safeBuild(build func() (DS, error)) (ds DS, err error, pan string) {
	defer func() {
		if r := recover(); r != nil {
			pan = fmt.Sprint(r)
		}
	}()
	ds, err = build()
	return
}

func (dc *domCtx) eval(ds DS, got bitvec) (pan string) {
	defer func() {
		if r := recover(); r != nil {
			pan = fmt.Sprint(r)
		}
	}()
	got.zero()
	for i, p := range dc.probes {
		if ds.Match(p) {
			got.set(i)
		}
	}
	return ""
}

// cmp builds one representation and compares its answers on every probe.
// mustLoad=false means a load error is an accepted refusal.
func (dc *domCtx) cmp(w *domWorker, t *tally, rep string, exp bitvec, mustLoad bool, build func() (DS, error)) *domFail {
	ds, err, pan := safeBuild(build)
	t.ops++
	if pan != "" {
		return &domFail{Rep: rep, Kind: "panic", Detail: "building: " + pan}
	}
	if err != nil {
		if mustLoad {
			return &domFail{Rep: rep, Kind: "load-error", Detail: err.Error()}
		}
		t.note("refused_to_load (accepted: empty set / empty rule / invalid regexp)", 1)
		return nil
	}
	pan = dc.eval(ds, w.got)
	t.ops += int64(len(dc.probes))
	if pan != "" {
		return &domFail{Rep: rep, Kind: "panic", Detail: "matching: " + pan}
	}
	if i := w.got.firstDiff(exp); i >= 0 {
		k := "false-negative"
		if w.got.get(i) {
			k = "false-positive"
		}
		return &domFail{Rep: rep, Kind: k, Probe: dc.probes[i]}
	}
	return nil
}

// check runs one rule sequence through the selected representations.
func (dc *domCtx) check(w *domWorker, t *tally, seq []item, o domOpts) (fails []domFail, nontrivial bool) {
	var rules [4][]string
	for i := range w.exp {
		w.exp[i].zero()
	}
	w.all.zero()
	w.noX.zero()
	representable := len(seq) > 0
	validX := true
	for _, it := range seq {
		k := kindIndex[it.K]
		rules[k] = append(rules[k], it.R)
		if it.R == "" || strings.ContainsAny(it.R, "\r\n") {
			representable = false
		}
		v, err := dc.ref(it)
		if err != nil {
			validX = false
			continue
		}
		w.exp[k].orWith(v)
		w.all.orWith(v)
		if it.K != 'X' {
			w.noX.orWith(v)
		}
	}
	n1 := w.all.ones()
	nontrivial = n1 > 0 && n1 < len(dc.probes)
	if !o.nocount {
		t.cases++
	}

	fail := func(f *domFail) bool {
		if f == nil {
			return false
		}
		fails = append(fails, *f)
		return !o.all
	}

	if o.direct {
		for _, kb := range []byte{'D', 'S', 'K', 'X'} {
			k := kindIndex[kb]
			if len(rules[k]) == 0 && len(seq) > 0 {
				continue
			}
			for _, r := range directReps[kb] {
				if fail(dc.cmp(w, t, string(kb)+"/"+r.name, w.exp[k], validX || kb != 'X', func() (DS, error) { return r.build(rules[k]) })) {
					return
				}
			}
			for _, src := range convSrcs[kb] {
				if o.detOnly && src.name == "map" {
					continue
				}
				for _, dst := range convDsts[kb] {
					if fail(dc.cmp(w, t, string(kb)+"/"+src.name+".Rules>"+dst.name, w.exp[k], true, func() (DS, error) {
						return dst.mk(insertAll(src.mk(), rules[k]))
					})) {
						return
					}
				}
			}
		}
		// the route constructor's inline toDomains path
		if len(rules[0]) > 0 {
			if fail(dc.cmp(w, t, "D/router-inline-toDomains", w.exp[0], true, func() (DS, error) {
				mb := domainset.DomainLinearMatcher(slices.Clone(rules[0]))
				return appendTo(&mb)
			})) {
				return
			}
		}
	}

	canonical := ""
	if len(o.paths) > 0 || o.file || o.clearX {
		canonical = renderText(seq, textVariant{})
	}
	source := func(src int) (domainset.Builder, error) {
		if src == 3 {
			t.ops++
			return domainset.BuilderFromText(canonical)
		}
		b := mkBuilder(src)
		for _, it := range seq {
			b[kindIndex[it.K]].Insert(it.R)
		}
		t.ops += int64(len(seq))
		return b, nil
	}
	for _, p := range o.paths {
		usesText := p.src == 3 || strings.Contains(p.conv, "t")
		mustLoad := validX && (representable || !usesText)
		if fail(dc.cmp(w, t, p.String(), w.all, mustLoad, func() (DS, error) {
			b, err := source(p.src)
			if err != nil {
				return nil, err
			}
			b, err = convert(b, p.conv, t)
			if err != nil {
				return nil, err
			}
			return b.DomainSet()
		})) {
			return
		}
	}
	if o.clearX {
		for _, p := range []setPath{{3, "g"}, {3, "t"}, {0, "g"}} {
			if fail(dc.cmp(w, t, "skipRegexp:"+p.String(), w.noX, representable && len(seq) > len(rules[3]), func() (DS, error) {
				b, err := source(p.src)
				if err != nil {
					return nil, err
				}
				b.RegexpMatcherBuilder().Clear()
				b, err = convert(b, p.conv, t)
				if err != nil {
					return nil, err
				}
				return b.DomainSet()
			})) {
				return
			}
		}
	}
	for _, v := range o.variants {
		if fail(dc.cmp(w, t, "text["+v.String()+"]>set", w.all, validX && representable, func() (DS, error) {
			b, err := domainset.BuilderFromText(renderText(seq, v))
			if err != nil {
				return nil, err
			}
			return b.DomainSet()
		})) {
			return
		}
	}
	if o.file {
		textPath := filepath.Join(w.tmpdir, "set.txt")
		gobPath := filepath.Join(w.tmpdir, "set.gob")
		for _, fr := range []struct {
			name, typ, path string
			write           func() error
		}{
			{"file[type=text]", "text", textPath, func() error { return os.WriteFile(textPath, []byte(canonical), 0o644) }},
			{"file[type=\"\"]", "", textPath, func() error {
				return os.WriteFile(textPath, []byte(renderText(seq, textVariant{CRLF: true, Noise: 2})), 0o644)
			}},
			{"file[type=gob]", "gob", gobPath, func() error {
				b := mkBuilder(2)
				for _, it := range seq {
					b[kindIndex[it.K]].Insert(it.R)
				}
				var buf bytes.Buffer
				if err := b.WriteGob(&buf); err != nil {
					return err
				}
				return os.WriteFile(gobPath, buf.Bytes(), 0o644)
			}},
		} {
			if err := fr.write(); err != nil {
				harness.Fatal("scratch file: %v", err)
			}
			if fail(dc.cmp(w, t, fr.name+">Config.DomainSet", w.all, validX && (representable || fr.typ == "gob"), func() (DS, error) {
				return domainset.Config{Name: "c10", Type: fr.typ, Path: fr.path}.DomainSet()
			})) {
				return
			}
		}
	}
	return
}

// checkCase is check plus root-cause attribution: when the first failure is
// in a derived representation (a set path, a text variant, or a representation
// whose insertion order comes from Go's map iteration), the per-kind matcher
// implementations are run on every permutation of the same rules (<=4 rules;
// otherwise as given and reversed), and if one of them already fails, that
// simpler failure is reported instead.  This keeps signatures few and stable:
// one defect in a matcher is named after the matcher, not after every path
// that happens to contain it.
func (dc *domCtx) checkCase(w *domWorker, t *tally, seq []item, o domOpts) (fails []domFail, failSeq []item, nontrivial bool) {
	fails, nontrivial = dc.check(w, t, seq, o)
	failSeq = seq
	if len(fails) == 0 || o.all {
		return
	}
	f := fails[0]
	if isDeterministicDirect(f.Rep) {
		return
	}
	try := func(p []item) bool {
		fs, _ := dc.check(w, t, p, domOpts{direct: true, detOnly: true, nocount: true})
		if len(fs) > 0 {
			fails, failSeq = fs[:1], slices.Clone(p)
			return true
		}
		return false
	}
	if len(seq) <= 4 {
		perm := slices.Clone(seq)
		var rec func(k int) bool
		rec = func(k int) bool {
			if k == len(perm) {
				return try(perm)
			}
			for i := k; i < len(perm); i++ {
				perm[k], perm[i] = perm[i], perm[k]
				if rec(k + 1) {
					return true
				}
				perm[k], perm[i] = perm[i], perm[k]
			}
			return false
		}
		rec(0)
		return
	}
	if !try(seq) {
		r := slices.Clone(seq)
		slices.Reverse(r)
		try(r)
	}
	return
}

func isDeterministicDirect(rep string) bool {
	if len(rep) < 2 || rep[1] != '/' {
		return false
	}
	return !strings.Contains(rep, "/map.Rules>")
}

// ---------------------------------------------------------------------------
// enumeration parts

// seqSpace enumerates every sequence of length 0..maxLen over an alphabet,
// shortest first, in index order.
type seqSpace struct {
	alpha  []item
	maxLen int
	starts []int64 // starts[L] = first index of length-L sequences
}

func newSeqSpace(alpha []item, maxLen int) *seqSpace {
	s := &seqSpace{alpha: alpha, maxLen: maxLen}
	n, p := int64(0), int64(1)
	for L := 0; L <= maxLen; L++ {
		s.starts = append(s.starts, n)
		n += p
		p *= int64(len(alpha))
	}
	s.starts = append(s.starts, n)
	return s
}

func (s *seqSpace) size() int64 { return s.starts[len(s.starts)-1] }

func (s *seqSpace) decode(i int64, buf []item) []item {
	L := 0
	for i >= s.starts[L+1] {
		L++
	}
	i -= s.starts[L]
	buf = buf[:0]
	for k := 0; k < L; k++ {
		buf = append(buf, item{})
	}
	for k := L - 1; k >= 0; k-- {
		buf[k] = s.alpha[i%int64(len(s.alpha))]
		i /= int64(len(s.alpha))
	}
	return buf
}

func itemsOf(kind byte, rules []string) []item {
	out := make([]item, len(rules))
	for i, r := range rules {
		out[i] = item{kind, r}
	}
	return out
}

func replayOfDomain(dc *domCtx, seq []item, f domFail) map[string]any {
	return map[string]any{"part": "domain", "labels": dc.labels, "depth": dc.depth, "chain": dc.chain, "items": itemsJSON(seq), "first_failure": f}
}

// runSeqPart enumerates a sequence space in parallel.
func runSeqPart(c *harness.Check, partNo int64, name string, dc *domCtx, sp *seqSpace, o domOpts, desc map[string]any) {
	if !want(name) {
		return
	}
	dc.precompute(sp.alpha)
	type st struct {
		w   *domWorker
		buf []item
	}
	sampleAt := map[int64]bool{sp.size() / 2: true}
	total, complete := parallel(sp.size(), 64,
		func() *st { return &st{w: dc.newWorker(""), buf: make([]item, 0, 8)} },
		func(s *st, t *tally, i int64) {
			seq := sp.decode(i, s.buf)
			fails, fseq, nontrivial := dc.checkCase(s.w, t, seq, o)
			c.Distinct(canonKey(seq), nontrivial)
			for _, f := range fails {
				report(partNo<<48|i, f.sig(), f.what(fseq), replayOfDomain(dc, slices.Clone(fseq), f))
			}
			if sampleAt[i] {
				c.Sample(map[string]any{"part": name, "index": i, "rules_in_insertion_order": itemsJSON(seq), "probes": len(dc.probes), "reference_matches": s.w.all.ones()})
			}
		})
	desc["alphabet_size"] = len(sp.alpha)
	desc["max_sequence_length"] = sp.maxLen
	desc["index_space"] = sp.size()
	desc["probes_per_representation"] = len(dc.probes)
	finishPart(c, name, total, complete, desc)
}

func pathNames(ps []setPath) []string {
	var out []string
	for _, p := range ps {
		out = append(out, p.String())
	}
	return out
}

func directNames() []string {
	var out []string
	for _, kb := range []byte{'D', 'S', 'K', 'X'} {
		for _, r := range directReps[kb] {
			out = append(out, string(kb)+"/"+r.name)
		}
		for _, s := range convSrcs[kb] {
			for _, d := range convDsts[kb] {
				out = append(out, string(kb)+"/"+s.name+".Rules>"+d.name)
			}
		}
	}
	return append(out, "D/router-inline-toDomains")
}

func domainParts(c *harness.Check) {
	dc := newDomCtx(domLabels, 4, 0)
	names3 := genNames(domLabels, 3)           // 84
	names3small := genNames(domLabelsSmall, 3) // 39
	names2 := genNames(domLabels, 2)           // 20
	names2small := genNames(domLabelsSmall, 2) // 12
	c.Extra["domain_probe_examples"] = dc.probes[:min(24, len(dc.probes))]
	c.Extra["direct_representations"] = directNames()

	// 1. suffix rules in every insertion order (the trie is order sensitive by construction)
	seqOpts := domOpts{direct: true, paths: shortPaths}
	every := "every ordered sequence with repetition"
	runSeqPart(c, 1, "domain/suffix-sequences(4 labels)", dc, newSeqSpace(itemsOf('S', names3), harness.Pick(c, 2, 3)), seqOpts,
		map[string]any{"alphabet": "suffix rules = every name of <=3 labels over {a,b,ab,\"\"}", "order": every, "set_paths": pathNames(shortPaths)})
	runSeqPart(c, 2, "domain/suffix-sequences(3 labels)", dc, newSeqSpace(itemsOf('S', names3small), harness.Pick(c, 3, 4)), seqOpts,
		map[string]any{"alphabet": "suffix rules = every name of <=3 labels over {a,b,\"\"}", "order": every, "set_paths": pathNames(shortPaths)})
	// 2. the other kinds on their own
	runSeqPart(c, 3, "domain/domain-sequences(4 labels)", dc, newSeqSpace(itemsOf('D', names3), harness.Pick(c, 2, 3)), seqOpts,
		map[string]any{"alphabet": "domain rules = every name of <=3 labels over {a,b,ab,\"\"}", "order": every})
	runSeqPart(c, 4, "domain/domain-sequences(3 labels)", dc, newSeqSpace(itemsOf('D', names3small), 3), seqOpts,
		map[string]any{"alphabet": "domain rules = every name of <=3 labels over {a,b,\"\"}", "order": every})
	runSeqPart(c, 5, "domain/keyword-sequences", dc, newSeqSpace(itemsOf('K', names2), 3), seqOpts,
		map[string]any{"alphabet": "keyword rules = every name of <=2 labels over {a,b,ab,\"\"}", "order": every})
	runSeqPart(c, 6, "domain/regexp-sequences", dc, newSeqSpace(itemsOf('X', regexpAlphabet), 3),
		domOpts{direct: true, paths: shortPaths, clearX: true},
		map[string]any{"alphabet": regexpAlphabet, "order": every})

	// 3. mixed kinds, every order of lines
	var mixedSmall, mixed, mixedBig []item
	mixedSmall = append(mixedSmall, itemsOf('D', names2small)...)
	mixedSmall = append(mixedSmall, itemsOf('S', names2small)...)
	mixedSmall = append(mixedSmall, itemsOf('K', []string{"a", "b", ".", "a.", ".a", "a.b"})...)
	mixedSmall = append(mixedSmall, itemsOf('X', regexpAlphabet[:6])...)
	mixed = append(mixed, itemsOf('D', names3small)...)
	mixed = append(mixed, itemsOf('S', names3small)...)
	mixed = append(mixed, itemsOf('K', names2small)...)
	mixed = append(mixed, itemsOf('X', regexpAlphabet[:10])...)
	mixedBig = append(mixedBig, itemsOf('D', names3)...)
	mixedBig = append(mixedBig, itemsOf('S', names3)...)
	mixedBig = append(mixedBig, itemsOf('K', names2)...)
	mixedBig = append(mixedBig, itemsOf('X', regexpAlphabet)...)
	mixedDesc := func(a []item) string {
		var n [4]int
		for _, it := range a {
			n[kindIndex[it.K]]++
		}
		return fmt.Sprintf("%d rules: %d domain + %d suffix + %d keyword + %d regexp (names over the label vocabulary; regexps from the fixed list)", len(a), n[0], n[1], n[2], n[3])
	}
	runSeqPart(c, 7, "domain/mixed-sequences", dc, newSeqSpace(harness.Pick(c, mixedSmall, mixed), 3),
		domOpts{paths: shortPaths},
		map[string]any{"alphabet": mixedDesc(harness.Pick(c, mixedSmall, mixed)), "order": every + " (every insertion / line order)", "set_paths": pathNames(shortPaths)})

	// 4. every text variant and every set path on every sequence of <=2 rules
	variants := allVariants()
	runSeqPart(c, 8, "domain/text-variants", dc, newSeqSpace(harness.Pick(c, mixed, mixedBig), 2),
		domOpts{paths: fullPaths, variants: variants, clearX: true},
		map[string]any{"alphabet": mixedDesc(harness.Pick(c, mixed, mixedBig)), "order": every, "variants": len(variants), "variant_axes": map[string]any{"eol": []string{"LF", "CRLF"}, "final_newline": []bool{true, false}, "capacity_hint": hintNames, "noise": noiseNames}, "set_paths": pathNames(fullPaths)})

	if c.Thorough() {
		// one more label on the probe side
		dc5 := newDomCtx(domLabels, 5, 0)
		runSeqPart(c, 10, "domain/deep-probes(suffix)", dc5, newSeqSpace(itemsOf('S', names3), 2), seqOpts,
			map[string]any{"alphabet": "suffix rules = every name of <=3 labels over {a,b,ab,\"\"}; probes = every name of <=5 labels", "order": every})
		runSeqPart(c, 11, "domain/deep-probes(mixed)", dc5, newSeqSpace(mixedBig, 2), domOpts{paths: shortPaths},
			map[string]any{"alphabet": mixedDesc(mixedBig) + "; probes = every name of <=5 labels", "order": every})
	}

	thresholdPart(c, variants)
	converterPart(c)
	edgePart(c)
}

// thresholdPart: generated sets whose per-kind sizes straddle MaxLinearSuffixes
// (4) and MaxLinearDomains (16), in several insertion orders, through every
// representation including files on disk.
func thresholdPart(c *harness.Check, variants []textVariant) {
	if !want("domain/threshold-sets") {
		return
	}
	depth := harness.Pick(c, 4, 5)
	dc := newDomCtx(domLabels, depth, 103)
	pool := genNames(domLabels, 4)
	pool = slices.DeleteFunc(pool, func(s string) bool { return s == "" })
	families := []string{"shortest-first", "shortest-first-reversed", "longest-names", "stride7", "nested-chain-ascending", "nested-chain-descending"}
	pick := func(fam, n int) []string {
		out := make([]string, 0, n)
		switch fam {
		case 0:
			out = append(out, pool[:n]...)
		case 1:
			out = append(out, pool[:n]...)
			slices.Reverse(out)
		case 2:
			out = append(out, pool[len(pool)-n:]...)
		case 3:
			for i := 0; i < n; i++ {
				out = append(out, pool[(i*7+3)%len(pool)])
			}
		case 4, 5:
			for i := 0; i < n; i++ {
				out = append(out, strings.Repeat("a.", i)+"b")
			}
			if fam == 5 {
				slices.Reverse(out)
			}
		}
		return out
	}
	type cfg struct {
		fam  int
		size [4]int
	}
	var cfgs []cfg
	maxX := harness.Pick(c, 18, 101)
	for fam := range families {
		for _, n := range thresholdSizes {
			for k := 0; k < 4; k++ {
				if k == 3 && n > maxX {
					continue
				}
				var s [4]int
				s[k] = n
				cfgs = append(cfgs, cfg{fam, s})
			}
			cfgs = append(cfgs, cfg{fam, [4]int{n, n, n, min(n, maxX)}})
		}
		for _, nd := range thresholdCross {
			for _, ns := range thresholdCross {
				cfgs = append(cfgs, cfg{fam, [4]int{nd, ns, 0, 0}})
			}
		}
	}
	build := func(cf cfg) []item {
		var seq []item
		// lines interleaved D,S,K,X round robin so that kinds alternate in the text
		var lists [4][]item
		for k, kb := range []byte{'D', 'S', 'K', 'X'} {
			for _, r := range pick(cf.fam, cf.size[k]) {
				if kb == 'X' {
					r = "^" + regexp.QuoteMeta(r) + "$"
				}
				lists[k] = append(lists[k], item{kb, r})
			}
		}
		for i := 0; ; i++ {
			any := false
			for k := range lists {
				if i < len(lists[k]) {
					seq = append(seq, lists[k][i])
					any = true
				}
			}
			if !any {
				break
			}
		}
		return seq
	}
	tmproot, err := os.MkdirTemp("", "verif-c10-")
	if err != nil {
		harness.Fatal("%v", err)
	}
	defer os.RemoveAll(tmproot)
	o := domOpts{direct: true, paths: fullPaths, variants: variants, file: true, clearX: true}
	var nextDir int64
	_ = nextDir
	total, complete := parallel(int64(len(cfgs)), 1,
		func() *domWorker {
			d, err := os.MkdirTemp(tmproot, "w")
			if err != nil {
				harness.Fatal("%v", err)
			}
			return dc.newWorker(d)
		},
		func(w *domWorker, t *tally, i int64) {
			cf := cfgs[i]
			seq := build(cf)
			fails, fseq, nontrivial := dc.checkCase(w, t, seq, o)
			c.Distinct(canonKey(seq), nontrivial)
			for _, f := range fails {
				report(9<<48|i, f.sig(), f.what(fseq), replayOfDomain(dc, fseq, f))
			}
			if i == int64(len(cfgs))-1 {
				first := itemsJSON(seq[:min(6, len(seq))])
				c.Sample(map[string]any{"part": "domain/threshold-sets", "family": families[cf.fam], "sizes_DSKR": cf.size, "first_rules": first, "probes": len(dc.probes)})
			}
		})
	finishPart(c, "domain/threshold-sets", total, complete, map[string]any{
		"sizes": thresholdSizes, "cross_sizes_domain_x_suffix": thresholdCross, "families": families, "configurations": len(cfgs),
		"probes_per_representation": len(dc.probes), "text_variants": len(variants), "set_paths": pathNames(fullPaths),
		"file_loader": []string{"text", "\"\" (default=text, CRLF+comments)", "gob"},
	})
}

// edgePart records (never reports) how the text loader treats inputs the
// statement is silent about.
func edgePart(c *harness.Check) {
	if !want("domain/edge") {
		return
	}
	texts := []struct{ name, text string }{
		{"empty file", ""},
		{"only newline", "\n"},
		{"only capacity hint", "# shadowsocks-go domain set capacity hint 0 0 0 0 DSKR\n"},
		{"only a comment", "# nothing\n"},
		{"empty suffix rule", "suffix:\n"},
		{"empty keyword rule", "keyword:\n"},
		{"rule without kind", "a.b\n"},
		{"keywordX", "keywordX:a\n"},
		{"whitespace line", "suffix:a\n \nsuffix:b\n"},
		{"hint missing DSKR", "# shadowsocks-go domain set capacity hint 1 1 1 1\nsuffix:a\n"},
		{"hint negative", "# shadowsocks-go domain set capacity hint -1 1 1 1 DSKR\nsuffix:a\n"},
		{"hint not a number", "# shadowsocks-go domain set capacity hint x 1 1 1 DSKR\nsuffix:a\n"},
		{"hint keyword capacity 2^62", "# shadowsocks-go domain set capacity hint 0 0 4611686018427387904 0 DSKR\nsuffix:a\n"},
		{"hint domain capacity 2^62", "# shadowsocks-go domain set capacity hint 4611686018427387904 0 0 0 DSKR\nsuffix:a\n"},
		{"invalid regexp", "regexp:(\n"},
		{"CR without LF at end of file", "suffix:a\r"},
	}
	out := map[string]string{}
	var t tally
	for _, e := range texts {
		ds, err, pan := safeBuild(func() (DS, error) {
			b, err := domainset.BuilderFromText(e.text)
			if err != nil {
				return nil, err
			}
			return b.DomainSet()
		})
		t.cases++
		t.ops++
		switch {
		case pan != "":
			out[e.name] = "panic: " + pan
		case err != nil:
			out[e.name] = "refused: " + err.Error()
		default:
			out[e.name] = fmt.Sprintf("loaded (%d matchers; a matches=%v)", len(ds), ds.Match("a"))
		}
	}
	// gob of an empty set, and its conversion to text
	{
		var buf bytes.Buffer
		b := mkBuilder(2)
		err := b.WriteGob(&buf)
		if err == nil {
			var b2 domainset.Builder
			b2, err = domainset.BuilderFromGobString(buf.String())
			if err == nil {
				n, _ := b2.SuffixMatcherBuilder().Rules()
				var tb bytes.Buffer
				b2.WriteText(&tb)
				_, err2 := domainset.BuilderFromText(tb.String())
				out["empty set: gob -> text -> load"] = fmt.Sprintf("gob loads; suffix Rules() count after gob = %d; WriteText = %q; BuilderFromText of it: %v", n, tb.String(), err2)
			}
		}
		if err != nil {
			out["empty set: gob -> text -> load"] = "error: " + err.Error()
		}
		t.cases++
		t.ops += 4
	}
	c.Count(t.cases, 0, t.ops)
	c.Part("domain/edge-observations (recorded, never a verdict)", map[string]any{"outcomes": out, "cases": t.cases})
}

// ---------------------------------------------------------------------------
// replay

func replayDomain(r map[string]any) []string {
	var labels []string
	for _, l := range r["labels"].([]any) {
		labels = append(labels, l.(string))
	}
	depth := int(r["depth"].(float64))
	chain := int(r["chain"].(float64))
	dc := newDomCtx(labels, depth, chain)
	var seq []item
	for _, p := range r["items"].([]any) {
		pr := p.([]any)
		seq = append(seq, item{pr[0].(string)[0], pr[1].(string)})
	}
	if conv, _ := r["converter"].(bool); conv {
		v, _ := r["variant"].(float64)
		return replayConverter(dc, seq, int64(v))
	}
	tmp, err := os.MkdirTemp("", "verif-c10-")
	if err != nil {
		harness.Fatal("%v", err)
	}
	defer os.RemoveAll(tmp)
	var t tally
	fails, _ := dc.check(dc.newWorker(tmp), &t, seq, domOpts{direct: true, paths: fullPaths, variants: allVariants(), file: true, clearX: true, all: true})
	fmt.Printf("replay domain case: %d rules, %d probes, %d operations on the real code\n", len(seq), len(dc.probes), t.ops)
	var msgs []string
	for _, f := range fails {
		msgs = append(msgs, f.what(seq))
	}
	return msgs
}
