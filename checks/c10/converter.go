package main

import (
	"bytes"
	"encoding/json"
	"fmt"
	"os"
	"os/exec"
	"path/filepath"
	"regexp"
	"slices"
	"strings"

	"github.com/database64128/shadowsocks-go/domainset"

	"verif/harness"
)

// The converter is package main and cannot be imported.  Its conversion steps
// are re-driven in-process by the set paths of domain.go (BuilderFromText /
// BuilderFromGobString -> WriteText / WriteGob, and Clear for -skipRegexp).
// This part additionally builds the real converter command from the current
// tree (same build overlay) and runs it on files, so that its flag handling,
// its v2fly/dlc reader and its file output are in the loop as well.

const converterPkg = "github.com/database64128/shadowsocks-go/cmd/shadowsocks-go-domain-set-converter"

// buildConverter returns the path of the converter binary, or "" with a reason.
func buildConverter(tmp string) (string, string) {
	ov := os.Getenv("VERIF_OVERLAY")
	if ov == "" {
		return "", "VERIF_OVERLAY is not set (binary not started through ./check)"
	}
	if _, err := exec.LookPath("go"); err != nil {
		return "", "go toolchain not on PATH"
	}
	// The rewriter leaves cmd/ packages out of the overlay.  When the check runs
	// against a scratch worktree (VERIF_REPO), map the converter's own sources
	// too, so that edits to cmd/.../main.go in the worktree are what gets built.
	if repo := os.Getenv("VERIF_REPO"); repo != "" && repo != "/repo" {
		b, err := os.ReadFile(ov)
		if err != nil {
			harness.Fatal("read overlay: %v", err)
		}
		var o struct{ Replace map[string]string }
		if err := json.Unmarshal(b, &o); err != nil {
			harness.Fatal("parse overlay: %v", err)
		}
		rel := "cmd/shadowsocks-go-domain-set-converter"
		files, _ := filepath.Glob(filepath.Join(repo, rel, "*.go"))
		for _, f := range files {
			o.Replace[filepath.Join("/repo", rel, filepath.Base(f))] = f
		}
		nb, _ := json.Marshal(o)
		ov = filepath.Join(tmp, "overlay.json")
		if err := os.WriteFile(ov, nb, 0o644); err != nil {
			harness.Fatal("%v", err)
		}
	}
	bin := filepath.Join(tmp, "converter")
	cmd := exec.Command("go", "build", "-overlay", ov, "-o", bin, converterPkg)
	cmd.Dir = harness.Root
	if out, err := cmd.CombinedOutput(); err != nil {
		harness.Fatal("the converter command does not build against the current tree: %v\n%s", err, out)
	}
	return bin, ""
}

// renderDlc writes the rules in v2fly/dlc form: full: = exact domain, domain: =
// suffix, keyword:, regexp:; an attribute follows the rule after one space.
// Lines with index in tagged carry the attribute "@sel", every third other
// line carries "@other".
func renderDlc(seq []item, tagged map[int]bool) string {
	var sb strings.Builder
	sb.WriteString("# generated\n\n")
	for i, it := range seq {
		switch it.K {
		case 'D':
			sb.WriteString("full:")
		case 'S':
			sb.WriteString("domain:")
		case 'K':
			sb.WriteString("keyword:")
		case 'X':
			sb.WriteString("regexp:")
		}
		sb.WriteString(it.R)
		switch {
		case tagged[i]:
			sb.WriteString(" @sel")
		case i%3 == 1:
			sb.WriteString(" @other")
		}
		if i%2 == 0 {
			sb.WriteString("\r\n")
		} else {
			sb.WriteString("\n")
		}
	}
	return sb.String()
}

type convStep struct {
	name   string
	args   func(d string) []string
	outs   []struct{ file, typ string }
	expect int // 0 all rules, 1 without regexp rules, 2 only tagged rules
}

func converterSteps() []convStep {
	out := func(file, typ string) struct{ file, typ string } { return struct{ file, typ string }{file, typ} }
	return []convStep{
		{name: "inText>outGob+outText", args: func(d string) []string {
			return []string{"-inText", d + "/in.txt", "-outGob", d + "/o1.gob", "-outText", d + "/o1.txt"}
		}, outs: []struct{ file, typ string }{out("o1.gob", "gob"), out("o1.txt", "text")}},
		{name: "inGob(converted)>outText+outGob", args: func(d string) []string {
			return []string{"-inGob", d + "/o1.gob", "-outText", d + "/o2.txt", "-outGob", d + "/o2.gob"}
		}, outs: []struct{ file, typ string }{out("o2.txt", "text"), out("o2.gob", "gob")}},
		{name: "inText(converted)>outGob", args: func(d string) []string {
			return []string{"-inText", d + "/o2.txt", "-outGob", d + "/o3.gob"}
		}, outs: []struct{ file, typ string }{out("o3.gob", "gob")}},
		{name: "inDlc>outText+outGob", args: func(d string) []string {
			return []string{"-inDlc", d + "/in.dlc", "-outText", d + "/o4.txt", "-outGob", d + "/o4.gob"}
		}, outs: []struct{ file, typ string }{out("o4.txt", "text"), out("o4.gob", "gob")}},
		{name: "inDlc,tag>outText", expect: 2, args: func(d string) []string {
			return []string{"-inDlc", d + "/in.dlc", "-tag", "sel", "-outText", d + "/o5.txt"}
		}, outs: []struct{ file, typ string }{out("o5.txt", "text")}},
		{name: "inText,skipRegexp>outGob+outText", expect: 1, args: func(d string) []string {
			return []string{"-inText", d + "/in.txt", "-skipRegexp", "-outGob", d + "/o6.gob", "-outText", d + "/o6.txt"}
		}, outs: []struct{ file, typ string }{out("o6.gob", "gob"), out("o6.txt", "text")}},
	}
}

// converterCase runs one rule sequence through every converter step; variant
// selects the text form of the input file.  It returns the first failure.
func converterCase(dc *domCtx, w *domWorker, t *tally, bin string, seq []item, variant int64) (fail *domFail, nontrivial bool, dlc string) {
	t.cases++
	d := w.tmpdir
	old, _ := filepath.Glob(d + "/*")
	for _, f := range old {
		os.Remove(f)
	}
	tagged := map[int]bool{} // every line with an even index carries @sel
	var exp [3]bitvec
	for k := range exp {
		exp[k] = newBitvec(len(dc.probes))
	}
	var count [3]int
	for j, it := range seq {
		v, err := dc.ref(it)
		if err != nil {
			harness.Fatal("converter part uses an invalid regexp %q", it.R)
		}
		exp[0].orWith(v)
		count[0]++
		if it.K != 'X' {
			exp[1].orWith(v)
			count[1]++
		}
		if j%2 == 0 {
			tagged[j] = true
			exp[2].orWith(v)
			count[2]++
		}
	}
	n1 := exp[0].ones()
	nontrivial = n1 > 0 && n1 < len(dc.probes)
	dlc = renderDlc(seq, tagged)
	if err := os.WriteFile(d+"/in.txt", []byte(renderText(seq, textVariant{CRLF: variant%2 == 1, Noise: int(variant % 3)})), 0o644); err != nil {
		harness.Fatal("%v", err)
	}
	if err := os.WriteFile(d+"/in.dlc", []byte(dlc), 0o644); err != nil {
		harness.Fatal("%v", err)
	}
	for _, st := range converterSteps() {
		if count[st.expect] == 0 {
			continue // the text form cannot carry an empty set
		}
		rep := "converter-command[" + st.name + "]"
		cmd := exec.Command(bin, st.args(d)...)
		var stderr bytes.Buffer
		cmd.Stderr = &stderr
		err := cmd.Run()
		t.ops++
		if err != nil || stderr.Len() > 0 {
			return &domFail{Rep: rep, Kind: "load-error", Detail: fmt.Sprintf("the converter failed: %v %s", err, strings.TrimSpace(stderr.String()))}, nontrivial, dlc
		}
		for _, o := range st.outs {
			f := dc.cmp(w, t, rep, exp[st.expect], true, func() (DS, error) {
				return domainset.Config{Name: "c10", Type: o.typ, Path: filepath.Join(d, o.file)}.DomainSet()
			})
			if f != nil {
				f.Detail = strings.TrimSpace(f.Detail + " (output file " + o.file + " loaded through domainset.Config)")
				return f, nontrivial, dlc
			}
		}
	}
	return nil, nontrivial, dlc
}

func replayOfConverter(dc *domCtx, seq []item, variant int64, f domFail) map[string]any {
	m := replayOfDomain(dc, seq, f)
	m["converter"] = true
	m["variant"] = variant
	return m
}

func converterPart(c *harness.Check) {
	if !want("domain/converter-command") {
		return
	}
	tmproot, err := os.MkdirTemp("", "verif-c10-")
	if err != nil {
		harness.Fatal("%v", err)
	}
	defer os.RemoveAll(tmproot)
	bin, why := buildConverter(tmproot)
	if bin == "" {
		c.Cap("domain/converter-command: skipped, " + why)
		return
	}
	dc := newDomCtx(domLabels, 4, 20)

	// cases: single rules of every kind, every ordered pair of a small alphabet,
	// and generated sets straddling the thresholds.  (One case costs six process
	// starts, so the quick tier keeps this part small.)
	var cases [][]item
	var singles []item
	if c.Thorough() {
		singles = append(singles, itemsOf('D', genNames(domLabels, 3))...)
		singles = append(singles, itemsOf('S', genNames(domLabels, 3))...)
		singles = append(singles, itemsOf('K', genNames(domLabels, 2))...)
		singles = append(singles, itemsOf('X', regexpAlphabet)...)
	} else {
		singles = append(singles, itemsOf('D', genNames(domLabelsSmall, 2))...)
		singles = append(singles, itemsOf('S', genNames(domLabelsSmall, 2))...)
		singles = append(singles, itemsOf('K', []string{"a", ".", "a.", ".a", "a.b"})...)
		singles = append(singles, itemsOf('X', regexpAlphabet[:6])...)
	}
	for _, it := range singles {
		if it.R != "" { // the text form cannot carry an empty rule
			cases = append(cases, []item{it})
		}
	}
	small := []item{{'D', "a.b"}, {'D', "a.b."}, {'S', "b"}, {'S', "a.b"}, {'S', ".b"}, {'K', "b."}, {'X', `^a\.b$`}, {'X', `\.\.`}}
	if c.Thorough() {
		small = append(small, item{'D', "b"}, item{'D', ".a"}, item{'S', "ab.b"}, item{'S', "b."}, item{'K', "a"}, item{'K', "a.a"}, item{'X', `b$`}, item{'X', `^[ab]+\.a$`})
	}
	for _, x := range small {
		for _, y := range small {
			cases = append(cases, []item{x, y})
		}
	}
	pool := slices.DeleteFunc(genNames(domLabels, 4), func(s string) bool { return s == "" })
	for _, n := range harness.Pick(c, []int{4, 5, 16, 17, 100}, thresholdSizes[1:]) {
		for fam := 0; fam < 3; fam++ {
			var seq []item
			for i := 0; i < n; i++ {
				var r string
				switch fam {
				case 0:
					r = pool[i]
				case 1:
					r = pool[len(pool)-1-i]
				default:
					r = strings.Repeat("a.", n-1-i) + "b" // nested chain, longest first
				}
				seq = append(seq, item{'D', r}, item{'S', r})
				if i < 6 {
					seq = append(seq, item{'K', r + "."}, item{'X', "^" + regexp.QuoteMeta(r) + "$"})
				}
			}
			cases = append(cases, seq)
		}
	}
	for _, cs := range cases {
		dc.precompute(cs)
	}
	total, complete := parallel(int64(len(cases)), 1,
		func() *domWorker {
			d, err := os.MkdirTemp(tmproot, "w")
			if err != nil {
				harness.Fatal("%v", err)
			}
			return dc.newWorker(d)
		},
		func(w *domWorker, t *tally, i int64) {
			seq := cases[i]
			f, nontrivial, dlc := converterCase(dc, w, t, bin, seq, i)
			c.Distinct("conv|"+canonKey(seq), nontrivial)
			if f != nil {
				// if the same rules already fail in-process, report that simpler failure
				fs, fseq, _ := dc.checkCase(w, t, seq, domOpts{direct: true, paths: fullPaths, clearX: true, nocount: true})
				if len(fs) > 0 {
					report(12<<48|i, fs[0].sig(), fs[0].what(fseq), replayOfDomain(dc, fseq, fs[0]))
				} else {
					report(12<<48|i, f.sig(), f.what(seq), replayOfConverter(dc, seq, i, *f))
				}
			}
			if i == 7 {
				c.Sample(map[string]any{"part": "domain/converter-command", "rules": itemsJSON(seq[:min(8, len(seq))]), "rule_count": len(seq), "dlc_input_head": dlc[:min(200, len(dlc))]})
			}
		})
	var stepNames []string
	for _, s := range converterSteps() {
		stepNames = append(stepNames, s.name)
	}
	finishPart(c, "domain/converter-command", total, complete, map[string]any{
		"what":  "the real converter command built from the current tree, run on files; every output file is loaded through domainset.Config.DomainSet and probed",
		"steps": stepNames, "rule_sets": len(cases), "probes_per_output": len(dc.probes),
		"dlc_form": "full:=domain rule, domain:=suffix rule, keyword:, regexp:, optional single attribute after one space; -tag selects lines with that attribute",
	})
}

func replayConverter(dc *domCtx, seq []item, variant int64) []string {
	tmp, err := os.MkdirTemp("", "verif-c10-")
	if err != nil {
		harness.Fatal("%v", err)
	}
	defer os.RemoveAll(tmp)
	bin, why := buildConverter(tmp)
	if bin == "" {
		harness.Fatal("cannot replay a converter-command case: %s", why)
	}
	dc.precompute(seq)
	var t tally
	f, _, _ := converterCase(dc, dc.newWorker(tmp), &t, bin, seq, variant)
	if f != nil {
		return []string{f.what(seq)}
	}
	return nil
}
