// C14: traffic statistics neither lose nor invent traffic and charge the right
// user.  Part 1: all interleavings (deviation-bounded) of concurrent Collect*
// calls with Snapshot / SnapshotAndReset on the real collector.  Part 2:
// explicit-state search over API request sequences through the real ssm
// handlers against a reference model.
package main

import (
	"encoding/json"
	"fmt"
	"net/http"
	"net/http/httptest"
	"os"
	"path/filepath"
	"reflect"
	"regexp"
	"sort"
	"strings"
	"time"
	"verif/lib/tcprelay"

	"github.com/database64128/shadowsocks-go/api/ssm"
	"github.com/database64128/shadowsocks-go/cred"
	"github.com/database64128/shadowsocks-go/stats"
	"go.uber.org/zap"

	"verif/harness"
	"verif/vsched"
)

type op struct {
	kind string // T D U
	user string
	a, b uint64
}

type cscen struct {
	threads [][]op
	snaps   []string // "SAR" or "S"
}

var cscens = map[string]cscen{
	"sameUserTCP":     {threads: [][]op{{{"T", "a", 1, 2}}, {{"T", "a", 4, 8}}}, snaps: []string{"SAR", "SAR"}},
	"mixedUsers":      {threads: [][]op{{{"T", "", 1, 2}, {"D", "b", 4, 8}}, {{"U", "a", 16, 32}, {"T", "b", 64, 128}}}, snaps: []string{"SAR", "S"}},
	"newUserMidRun":   {threads: [][]op{{{"D", "a", 1, 2}, {"U", "b", 4, 8}}, {{"T", "b", 16, 32}}}, snaps: []string{"SAR", "SAR"}},
	"udpBoth":         {threads: [][]op{{{"D", "a", 1, 2}, {"U", "a", 4, 8}}, {{"U", "a", 16, 32}, {"D", "", 64, 128}}}, snaps: []string{"S", "SAR"}},
	"threeCollectors": {threads: [][]op{{{"T", "a", 1, 2}}, {{"T", "b", 4, 8}}, {{"T", "", 16, 32}}}, snaps: []string{"SAR"}},
}

func apply(c stats.Collector, o op) {
	switch o.kind {
	case "T":
		c.CollectTCPSession(o.user, o.a, o.b)
	case "D":
		c.CollectUDPSessionDownlink(o.user, o.a, o.b)
	case "U":
		c.CollectUDPSessionUplink(o.user, o.a, o.b)
	}
}

func refApply(m map[string]*stats.Traffic, o op) {
	t := m[o.user]
	if t == nil {
		t = &stats.Traffic{}
		m[o.user] = t
	}
	switch o.kind {
	case "T":
		t.DownlinkBytes += o.a
		t.UplinkBytes += o.b
		t.TCPSessions++
	case "D":
		t.DownlinkPackets += o.a
		t.DownlinkBytes += o.b
		t.UDPSessions++
	case "U":
		t.UplinkPackets += o.a
		t.UplinkBytes += o.b
	}
}

func collectorScenario(param string) vsched.Scenario {
	sc := cscens[param]
	return func() (func(), func(*vsched.Exec) (string, string)) {
		var snaps []stats.Server
		var kinds []string
		var final stats.Server
		body := func() {
			c := stats.NewServerCollector()
			var g vsched.Group
			for _, ops := range sc.threads {
				g.Go(func() {
					for _, o := range ops {
						apply(c, o)
					}
				})
			}
			g.Go(func() {
				for _, k := range sc.snaps {
					if k == "SAR" {
						snaps = append(snaps, c.SnapshotAndReset())
					} else {
						snaps = append(snaps, c.Snapshot())
					}
					kinds = append(kinds, k)
				}
			})
			g.Wait()
			final = c.Snapshot()
		}
		check := func(e *vsched.Exec) (string, string) {
			obs := fmt.Sprintf("%+v|%+v", snaps, final)
			if len(e.Panics) > 0 {
				return obs, "panic: " + e.Panics[0]
			}
			if e.Deadlock || e.HorizonHit {
				return obs, "deadlock/no termination: " + strings.Join(e.Blocked, " ")
			}
			ref := map[string]*stats.Traffic{}
			var refTotal stats.Traffic
			for _, ops := range sc.threads {
				for _, o := range ops {
					refApply(ref, o)
				}
			}
			for _, t := range ref {
				refTotal.Add(*t)
			}
			gotUser := map[string]*stats.Traffic{}
			var gotTotal stats.Traffic
			add := func(s stats.Server) string {
				var usum stats.Traffic
				for _, u := range s.Users {
					if gotUser[u.Name] == nil {
						gotUser[u.Name] = &stats.Traffic{}
					}
					gotUser[u.Name].Add(u.Traffic)
					usum.Add(u.Traffic)
				}
				gotTotal.Add(s.Traffic)
				// the anonymous share is total - sum(users)
				anon := s.Traffic
				anon.DownlinkPackets -= usum.DownlinkPackets
				anon.DownlinkBytes -= usum.DownlinkBytes
				anon.UplinkPackets -= usum.UplinkPackets
				anon.UplinkBytes -= usum.UplinkBytes
				anon.TCPSessions -= usum.TCPSessions
				anon.UDPSessions -= usum.UDPSessions
				if gotUser[""] == nil {
					gotUser[""] = &stats.Traffic{}
				}
				gotUser[""].Add(anon)
				return ""
			}
			for i, s := range snaps {
				if kinds[i] == "SAR" {
					add(s)
				}
			}
			add(final)
			if gotTotal != refTotal {
				return obs, fmt.Sprintf("server totals across successive snapshots %+v differ from traffic recorded %+v", gotTotal, refTotal)
			}
			for name, want := range ref {
				got := gotUser[name]
				if got == nil {
					got = &stats.Traffic{}
				}
				if *got != *want {
					return obs, fmt.Sprintf("user %q: snapshots add up to %+v, recorded %+v", name, *got, *want)
				}
			}
			for name, got := range gotUser {
				if ref[name] == nil && *got != (stats.Traffic{}) {
					return obs, fmt.Sprintf("traffic invented for user %q: %+v", name, *got)
				}
			}
			// a plain Snapshot never exceeds what was recorded in any counter
			for i, s := range snaps {
				if kinds[i] == "S" {
					if s.DownlinkBytes > refTotal.DownlinkBytes || s.UplinkBytes > refTotal.UplinkBytes {
						return obs, "snapshot shows more traffic than was ever recorded"
					}
				}
			}
			return obs, ""
		}
		return body, check
	}
}

// ---------------------------------------------------------------------------
// API part

type apiEnv struct {
	mux *http.ServeMux
	col stats.Collector
	dir string
}

func newAPIEnv() *apiEnv {
	dir, err := os.MkdirTemp("", "c14")
	if err != nil {
		harness.Fatal("%v", err)
	}
	path := filepath.Join(dir, "upsks.json")
	k1 := strings.Repeat("A", 22) + "==" // 16 bytes base64
	k2 := strings.Repeat("B", 22) + "=="
	k1 = "AAAAAAAAAAAAAAAAAAAAAA=="
	k2 = "AQEBAQEBAQEBAQEBAQEBAQ=="
	os.WriteFile(path, []byte(fmt.Sprintf(`{"a":%q,"b":%q}`, k1, k2)), 0o644)
	m := cred.NewManager(zap.NewNop())
	ms, err := m.RegisterServer("s", path, 16, nil, nil)
	if err != nil {
		harness.Fatal("register: %v", err)
	}
	col := stats.NewServerCollector()
	sm := ssm.NewServerManager(map[string]ssm.Server{"s": {CredentialManager: ms, StatsCollector: col}}, []string{"s"})
	mux := http.NewServeMux()
	// restapi.HandlerFunc lives in an internal package: build the register callback by reflection.
	rh := reflect.ValueOf(sm).MethodByName("RegisterHandlers")
	regType := rh.Type().In(0)
	reg := reflect.MakeFunc(regType, func(args []reflect.Value) []reflect.Value {
		method, path, h := args[0].String(), args[1].String(), args[2]
		mux.HandleFunc(method+" "+path, func(w http.ResponseWriter, r *http.Request) {
			h.Call([]reflect.Value{reflect.ValueOf(w), reflect.ValueOf(r)})
		})
		return nil
	})
	rh.Call([]reflect.Value{reg})
	return &apiEnv{mux: mux, col: col, dir: dir}
}

func (e *apiEnv) close() { os.RemoveAll(e.dir) }

func (e *apiEnv) get(path string) (int, map[string]any) {
	rec := httptest.NewRecorder()
	e.mux.ServeHTTP(rec, httptest.NewRequest("GET", path, nil))
	var m map[string]any
	json.Unmarshal(rec.Body.Bytes(), &m)
	return rec.Code, m
}

var apiOps = []string{"colA", "colB", "colAnon", "colC", "stats", "clear", "userA", "userB", "userMissing"}

func trafficOf(m map[string]any) stats.Traffic {
	g := func(k string) uint64 { f, _ := m[k].(float64); return uint64(f) }
	return stats.Traffic{DownlinkPackets: g("downlinkPackets"), DownlinkBytes: g("downlinkBytes"), UplinkPackets: g("uplinkPackets"), UplinkBytes: g("uplinkBytes"), TCPSessions: g("tcpSessions"), UDPSessions: g("udpSessions")}
}

// runAPIHistory replays hist on a fresh real API instance and compares every
// answer with the reference; returns a canonical state key and a violation.
func runAPIHistory(hist []int) (string, string, string) {
	e := newAPIEnv()
	defer e.close()
	ref := map[string]*stats.Traffic{}
	amount := uint64(1)
	for step, oi := range hist {
		name := apiOps[oi]
		switch name {
		case "colA", "colB", "colAnon", "colC":
			u := map[string]string{"colA": "a", "colB": "b", "colAnon": "", "colC": "c"}[name]
			var o op
			switch step % 3 {
			case 0:
				o = op{"T", u, amount, amount * 2}
			case 1:
				o = op{"D", u, amount, amount * 2}
			default:
				o = op{"U", u, amount, amount * 2}
			}
			amount *= 4
			apply(e.col, o)
			refApply(ref, o)
		case "stats", "clear":
			p := "/servers/s/stats"
			if name == "clear" {
				p += "?clear"
			}
			code, m := e.get(p)
			if code != 200 {
				return "", "api:" + fmt.Sprint(hist), fmt.Sprintf("GET %s -> %d", p, code)
			}
			var total stats.Traffic
			for _, t := range ref {
				total.Add(*t)
			}
			if got := trafficOf(m); got != total {
				return "", "api-server-totals", fmt.Sprintf("history %v: GET %s reports %+v, recorded %+v", names(hist[:step+1]), p, got, total)
			}
			users, _ := m["users"].([]any)
			seen := map[string]bool{}
			for _, x := range users {
				um := x.(map[string]any)
				un, _ := um["username"].(string)
				seen[un] = true
				want := stats.Traffic{}
				if ref[un] != nil {
					want = *ref[un]
				}
				if got := trafficOf(um); got != want || un == "" {
					return "", "api-stats-user", fmt.Sprintf("history %v: GET %s user %q reports %+v, recorded %+v", names(hist[:step+1]), p, un, got, want)
				}
			}
			for un, t := range ref {
				if un != "" && !seen[un] && *t != (stats.Traffic{}) {
					return "", "api-stats-user-missing", fmt.Sprintf("history %v: GET %s omits user %q with traffic %+v", names(hist[:step+1]), p, un, *t)
				}
			}
			if name == "clear" {
				for _, t := range ref {
					*t = stats.Traffic{}
				}
			}
		case "userA", "userB", "userMissing":
			un := map[string]string{"userA": "a", "userB": "b", "userMissing": "zz"}[name]
			code, m := e.get("/servers/s/users/" + un)
			if un == "zz" {
				if code != 404 {
					return "", "api-user-missing", fmt.Sprintf("GET users/zz -> %d", code)
				}
				continue
			}
			if code != 200 {
				return "", "api-user-code", fmt.Sprintf("GET users/%s -> %d", un, code)
			}
			want := stats.Traffic{}
			if ref[un] != nil {
				want = *ref[un]
			}
			if got := trafficOf(m); got != want {
				return "", "api-per-user-figures", fmt.Sprintf("history %v: GET users/%s reports %+v, that user's recorded traffic is %+v", names(hist[:step+1]), un, got, want)
			}
			if m["username"] != un {
				return "", "api-user-name", fmt.Sprintf("GET users/%s answers for %v", un, m["username"])
			}
		}
	}
	// canonical key: which users have any traffic, by counter non-zeroness, plus position parity (amounts are history dependent but irrelevant to futures except via step%3)
	var ks []string
	for u, t := range ref {
		ks = append(ks, fmt.Sprintf("%s:%v", u, *t != stats.Traffic{}))
	}
	sort.Strings(ks)
	return strings.Join(ks, ",") + fmt.Sprint(len(hist)%3), "", ""
}

func names(h []int) []string {
	var out []string
	for _, i := range h {
		out = append(out, apiOps[i])
	}
	return out
}

func apiSearch(c *harness.Check, depth int) {
	type node struct{ hist []int }
	frontier := []node{{nil}}
	var states, transitions int64
	for d := 0; d < depth; d++ {
		var next []node
		for _, n := range frontier {
			for oi := range apiOps {
				h := append(append([]int{}, n.hist...), oi)
				key, sig, viol := runAPIHistory(h)
				transitions++
				c.Distinct("api|"+fmt.Sprint(h), true)
				if viol != "" {
					c.Violation(sig, viol, map[string]any{"kind": "api", "history": names(h)})
					continue
				}
				_ = key
				states++
				next = append(next, node{h})
			}
		}
		frontier = next
	}
	c.Count(transitions, states, transitions)
	c.Part("api-histories", map[string]any{"depth": depth, "alphabet": apiOps, "histories": transitions, "violating_prefixes_not_extended": transitions - states})
	c.Sample(map[string]any{"api_history": names([]int{0, 4, 6}), "meaning": "collect for a; GET stats; GET users/a — every answer compared with the reference model"})
}

var digits = regexp.MustCompile(`[0-9]+`)

func main() {
	harness.Register("collector", collectorScenario)
	registerRecording()
	harness.WorkerMain()
	c := harness.Start("C14")
	if c.Replay != "" {
		r, err := harness.ReplayFile(c.Replay)
		if err != nil {
			harness.Fatal("%v", err)
		}
		if r["kind"] == "api" {
			var h []int
			for _, n := range r["history"].([]any) {
				for i, o := range apiOps {
					if o == n.(string) {
						h = append(h, i)
					}
				}
			}
			_, _, v := runAPIHistory(h)
			if v != "" {
				fmt.Printf("VIOLATION property=C14 replay=%s\n  %s\n", c.Replay, v)
				os.Exit(1)
			}
			fmt.Println("no violation on replay")
			os.Exit(0)
		}
		if harness.ReplayExploration(c) {
			os.Exit(1)
		}
		os.Exit(0)
	}
	c.Rule = "schedule part: one case = one complete interleaving of collector threads and a snapshot thread at atomic/lock granularity (map iteration order included); distinct = distinct (snapshots, final) record per scenario. API part: one case = one request history over the alphabet; all distinct. Recording parts: one case = one interleaving (delay-bounded) of a real TCP relay session (tcprecord, the family of lib/tcprelay) or of two UDP client sessions through a real UDP relay (udprecord: {none, socks5, ss2022, ss2022 multi-user, direct} x 2 batch modes); the collector's figures are compared with the bytes the harness saw delivered."
	c.Assumptions = []string{"sequential consistency", "deviation-bounded (preemptions + map-order rotations); bound reported per scenario", "API histories exhaustive to the stated depth over the stated alphabet", "recording parts: in-memory TCP connections / real loopback UDP sockets with scheduler-mediated readiness; a queued packet returned to its sync.Pool is scribbled over at once (a legal behaviour of a concurrent Get), so reads after Put are visible; transparent relay not run"}
	c.SigOf = func(name, param, msg string) string {
		if name == "udprecord" || name == "tcprecord" {
			msg = digits.ReplaceAllString(msg, "N") // figures vary with the schedule; the failing shape does not
		}
		if name == "tcprecord" {
			sp := tcprelay.Parse(param) // as C13: front protocol + wait/native flags + dial result
			param = fmt.Sprintf("server=%s,wait=%v,native=%v,dial=%s", sp.Server, sp.Wait, sp.Native, sp.Dial)
		}
		return name + "(" + param + "): " + msg
	}
	var params []string
	for k := range cscens {
		params = append(params, k)
	}
	sort.Strings(params)
	bound := harness.Pick(c, 2, 3)
	for _, r := range harness.ExploreBatch("collector", params, bound, harness.Pick(c, 60*time.Second, 10*time.Minute), false) {
		c.Sample(map[string]any{"scenario": r.Param, "threads": cscens[r.Param].threads, "snapshots": cscens[r.Param].snaps, "executions": r.Stats.Execs, "distinct_observations": len(r.Stats.Observations)})
		c.AddExploration("collector", r.Param, r.Stats, harness.Confirm(collectorScenario(r.Param)))
	}
	runRecordingParts(c)
	apiSearch(c, harness.Pick(c, 3, 4))
	c.Finish()
}
