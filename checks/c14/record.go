// Recording sites of C14: "the totals a server reports equal the sum of all sessions recorded" is only worth
// something if what a relay records for a session is the session's traffic.  Two parts run the real relays
// under the controlled scheduler and compare the collector's figures with the bytes the harness saw delivered:
//
//   - tcprecord: the TCP relay scenario family of lib/tcprelay (shared with C13); only its statistics oracle
//     counts here (everything else in those scenarios is C13's subject).
//   - udprecord: the real UDP relays (NAT and session, both batch modes) built from JSON by lib/udpenv with a
//     real stats.ServerCollector; two client sessions send datagrams of pairwise different lengths, an echo
//     target answers, and after Stop the snapshot must show exactly the datagrams and payload bytes that
//     arrived at the target (uplink) and at the clients (downlink), in the right number of sessions.  A queued
//     packet returned to its pool is scribbled over at once (another goroutine may recycle it immediately), so
//     a length read from it after the Put is visible.
package main

import (
	"context"
	"fmt"
	"net/netip"
	"sort"
	"strings"
	"time"

	"github.com/database64128/shadowsocks-go/conn"

	"verif/harness"
	"verif/lib/tcprelay"
	"verif/lib/udpenv"
	"verif/shim/vrand"
	"verif/vnet/vudp"
	"verif/vsched"
)

func tcpRecordScenario(param string) vsched.Scenario {
	inner := tcprelay.Scenario(param)
	return func() (func(), func(*vsched.Exec) (string, string)) {
		body, check := inner()
		return body, func(e *vsched.Exec) (string, string) {
			obs, msg := check(e)
			if !strings.HasPrefix(msg, "statistics") {
				msg = "" // routing, payload and half-close oracles are C13's
			}
			return obs, msg
		}
	}
}

func tcpRecordFamily(thorough bool) []string {
	var out []string
	for _, p := range tcprelay.Family(thorough) {
		sp := tcprelay.Parse(p)
		if !thorough && sp.Client != "stub" && sp.Client != "" {
			continue // chained clients change nothing about what the relay records
		}
		out = append(out, p)
	}
	return out
}

type udpRecSpec struct {
	server, batch string
	busy          bool // the service is stopped while datagrams are still on their way through the relay; only the uplink figures are compared
}

func (s udpRecSpec) String() string {
	return "server=" + s.server + ";batch=" + s.batch + map[bool]string{true: ";busy=true"}[s.busy]
}

func parseUDPRec(p string) (s udpRecSpec) {
	for _, kv := range strings.Split(p, ";") {
		k, v, _ := strings.Cut(kv, "=")
		switch k {
		case "server":
			s.server = v
		case "batch":
			s.batch = v
		case "busy":
			s.busy = v == "true"
		}
	}
	return
}

func udpRecordScenario(param string) vsched.Scenario {
	sp := parseUDPRec(param)
	const nClients = 2
	per := 2
	if sp.busy {
		per = 3
	}
	return func() (func(), func(*vsched.Exec) (string, string)) {
		var (
			env      *udpenv.Env
			buildErr error
			target   *udpenv.Target
			gotDown  = make([][]int, nClients) // payload lengths each client received
			recvErr  string
			stopped  bool
			snap     string
			upPk     uint64
			upBy     uint64
			dnPk     uint64
			dnBy     uint64
			sess     uint64
			userSum  string
		)
		body := func() {
			var err error
			env, err = udpenv.New(udpenv.Spec{Server: sp.server, Batch: sp.batch, Client: "direct"})
			if err != nil {
				buildErr = err
				return
			}
			vudp.Hosts = map[string][]netip.Addr{}
			target = env.NewTarget(1)
			if err := env.Start(context.Background()); err != nil {
				buildErr = err
				return
			}
			var tg, cg vsched.Group
			tg.Go(target.Serve)
			dst := conn.AddrFromIPPort(target.Addr)
			for i := 0; i < nClients; i++ {
				cg.Go(func() {
					c := env.NewClient(i, 0)
					sent := 0
					for k := 0; k < per; k++ {
						// pairwise different lengths: 10, 27, 44, 61 bytes
						p := fmt.Sprintf("s%d#%d", i, k) + strings.Repeat("x", 6+17*(i*per+k))
						if c.Send(dst, []byte(p)) == nil {
							sent++
						}
					}
					if sp.busy {
						return // the socket stays open until the end; nobody waits for replies
					}
					for k := 0; k < sent; k++ {
						_, pl, err := c.Recv(0)
						if err != nil {
							recvErr = err.Error()
							break
						}
						gotDown[i] = append(gotDown[i], len(pl))
					}
					c.Close()
				})
			}
			cg.Wait()
			env.Stop()
			stopped = true
			vsched.WaitIdle() // the target takes in whatever the relay had sent before it stopped
			target.Close()
			tg.Wait()
			vudp.Finish()
			s := env.Collector.Snapshot()
			upPk, upBy, dnPk, dnBy, sess = s.UplinkPackets, s.UplinkBytes, s.DownlinkPackets, s.DownlinkBytes, s.UDPSessions
			snap = fmt.Sprintf("up=%d/%d down=%d/%d sessions=%d tcp=%d", upPk, upBy, dnPk, dnBy, sess, s.TCPSessions)
			var us []string
			for _, u := range s.Users {
				us = append(us, fmt.Sprintf("%s:up=%d/%d,down=%d/%d", u.Name, u.UplinkPackets, u.UplinkBytes, u.DownlinkPackets, u.DownlinkBytes))
			}
			sort.Strings(us)
			userSum = strings.Join(us, " ")
		}
		check := func(e *vsched.Exec) (string, string) {
			obs := fmt.Sprintf("stats[%s] users[%s] down=%v stopped=%v", snap, userSum, gotDown, stopped)
			if buildErr != nil {
				return obs, "harness: cannot build/start services: " + buildErr.Error()
			}
			// crashes, lost replies and shutdown are C11's and C12's subject, but without a completed run there are
			// no figures to compare, and a check that silently compares nothing is worse than one that says so
			if len(e.Panics) > 0 {
				return obs, "no statistics to compare: panic: " + e.Panics[0]
			}
			if e.Deadlock || e.HorizonHit || !stopped {
				return obs, "no statistics to compare: the run did not complete: " + env.Canon(strings.Join(e.Blocked, " "))
			}
			if recvErr != "" {
				return obs, "no statistics to compare: a client did not get its reply: " + env.Canon(recvErr)
			}
			var wantUpPk, wantUpBy, wantDnPk, wantDnBy uint64
			for _, g := range target.Got {
				wantUpPk++
				wantUpBy += uint64(len(g.Payload))
			}
			for _, ls := range gotDown {
				for _, l := range ls {
					wantDnPk++
					wantDnBy += uint64(l)
				}
			}
			if upPk != wantUpPk || upBy != wantUpBy {
				return obs, fmt.Sprintf("statistics: uplink recorded as %d packets / %d bytes, the target received %d datagrams / %d payload bytes", upPk, upBy, wantUpPk, wantUpBy)
			}
			if sp.busy {
				return obs, "" // replies were not collected: nothing to compare the downlink and session figures with
			}
			if dnPk != wantDnPk || dnBy != wantDnBy {
				return obs, fmt.Sprintf("statistics: downlink recorded as %d packets / %d bytes, the clients received %d datagrams / %d payload bytes", dnPk, dnBy, wantDnPk, wantDnBy)
			}
			if sess != nClients {
				return obs, fmt.Sprintf("statistics: %d UDP sessions recorded, %d client sessions ran", sess, nClients)
			}
			if sp.server == "ss2022mu" {
				// each user's figures are the traffic of the sessions authenticated as that user
				names := []string{"alice", "bob"}
				var want []string
				for i := 0; i < nClients; i++ {
					var up, upB, dn, dnB uint64
					for _, g := range target.Got {
						var si, k int
						if _, err := fmt.Sscanf(g.Payload, "s%d#%d", &si, &k); err == nil && si == i {
							up++
							upB += uint64(len(g.Payload))
						}
					}
					for _, l := range gotDown[i] {
						dn++
						dnB += uint64(l)
					}
					want = append(want, fmt.Sprintf("%s:up=%d/%d,down=%d/%d", names[i%2], up, upB, dn, dnB))
				}
				sort.Strings(want)
				if w := strings.Join(want, " "); w != userSum {
					return obs, fmt.Sprintf("statistics: per-user figures {%s}, the users' sessions carried {%s}", userSum, w)
				}
			}
			return obs, ""
		}
		return body, check
	}
}

func udpRecordFamily() []string {
	var out []string
	for _, sv := range []string{"none", "socks5", "ss2022", "ss2022mu", "direct"} {
		for _, b := range []string{"no", "sendmmsg"} {
			out = append(out, udpRecSpec{sv, b, false}.String())
			if sv != "socks5" && sv != "direct" {
				out = append(out, udpRecSpec{sv, b, true}.String())
			}
		}
	}
	sort.Strings(out)
	return out
}

func registerRecording() {
	vrand.Hook = func(n int) int { return 0 }
	vsched.MapKeyString = func(k any) string {
		if ap, ok := k.(netip.AddrPort); ok {
			return fmt.Sprint(ap.Addr().As4()[3], ":", ap.Port())
		}
		return fmt.Sprint(k)
	}
	harness.Register("tcprecord", tcpRecordScenario)
	harness.Register("udprecord", udpRecordScenario)
}

func runRecordingParts(c *harness.Check) {
	tp := tcpRecordFamily(c.Thorough())
	for i, r := range harness.ExploreBatch("tcprecord", tp, harness.Pick(c, 1, 2), harness.Pick(c, 20*time.Second, 2*time.Minute), true) {
		if i%40 == 0 {
			c.Sample(map[string]any{"scenario": "tcprecord(" + r.Param + ")", "executions": r.Stats.Execs, "distinct_observations": len(r.Stats.Observations)})
		}
		c.AddExploration("tcprecord", r.Param, r.Stats, harness.Confirm(tcpRecordScenario(r.Param)))
	}
	// timer orders are not part of this property: NAT timers fire at quiescence only
	harness.NoEarlyClock = true
	for _, r := range harness.ExploreBatch("udprecord", udpRecordFamily(), harness.Pick(c, 1, 2), harness.Pick(c, 60*time.Second, 5*time.Minute), true) {
		c.Sample(map[string]any{"scenario": "udprecord(" + r.Param + ")", "executions": r.Stats.Execs, "distinct_observations": len(r.Stats.Observations)})
		c.AddExploration("udprecord", r.Param, r.Stats, harness.Confirm(udpRecordScenario(r.Param)))
	}
	harness.NoEarlyClock = false
	c.Extra["recording_scenarios"] = map[string]int{"tcprecord": len(tp), "udprecord": len(udpRecordFamily())}
}
