package direct

import (
	"context"
	"net"

	"github.com/database64128/shadowsocks-go/conn"
	"github.com/database64128/shadowsocks-go/zerocopy"
)

// C05Socks5Session runs the real session constructor of a SOCKS5 UDP client
// for a given UDP bound address (the address a SOCKS5 server would return for
// UDP ASSOCIATE) on an already established control connection tc, skipping
// only the TCP handshake.  ok is false when c is not a plain SOCKS5 UDP client.
func C05Socks5Session(ctx context.Context, c zerocopy.UDPClient, tc *net.TCPConn, bound conn.Addr) (info zerocopy.UDPClientSessionInfo, s zerocopy.UDPClientSession, ok bool, err error) {
	sc, ok := c.(*Socks5UDPClient)
	if !ok {
		return info, s, false, nil
	}
	s, err = sc.newSession(ctx, tc, bound)
	return sc.info, s, true, err
}
