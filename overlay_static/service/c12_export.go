package service

import "github.com/database64128/shadowsocks-go/router"

// VerifRouter returns the relay's router.
func (s *UDPNATRelay) VerifRouter() *router.Router { return s.router }

// VerifRouter returns the relay's router.
func (s *UDPSessionRelay) VerifRouter() *router.Router { return s.router }
