package service

import (
	"context"
	"time"

	"github.com/database64128/shadowsocks-go/netio"
	"go.uber.org/zap"
)

// VerifTCPListener builds the per-listener settings handleConn consults.
func VerifTCPListener(waitForInitialPayload bool, timeout time.Duration, bufSize int) *tcpRelayListener {
	if timeout == 0 {
		timeout = defaultInitialPayloadWaitTimeout
	}
	if bufSize == 0 {
		bufSize = defaultInitialPayloadWaitBufferSize
	}
	return &tcpRelayListener{
		logger:                       zap.NewNop(),
		waitForInitialPayload:        waitForInitialPayload,
		initialPayloadWaitTimeout:    timeout,
		initialPayloadWaitBufferSize: bufSize,
	}
}

// VerifHandleConn runs the real handleConn on the given connection.
func (s *TCPRelay) VerifHandleConn(ctx context.Context, lnc *tcpRelayListener, c netio.Conn) {
	s.handleConn(ctx, lnc, c)
}
