package service

import "github.com/database64128/shadowsocks-go/router"

// White-box getters for check C18 (effective values of the services a
// Manager would run).  Read-only.

// VerifC18Listener is the effective configuration of one listener.
type VerifC18Listener struct {
	Network                      string
	Address                      string // after Start: the bound address
	WaitForInitialPayload        bool
	InitialPayloadWaitTimeoutNs  int64
	InitialPayloadWaitBufferSize int
	BatchMode                    string
	RelayBatchSize               int
	ServerRecvBatchSize          int
	SendChannelCapacity          int
	NATTimeoutNs                 int64
}

// VerifC18Service is one relay service of a Manager.
type VerifC18Service struct {
	Kind       string // tcp | udpnat | udpsession | other
	ServerName string
	MTU        int
	Server     any // netio.StreamServer, zerocopy.UDPNATServer or zerocopy.UDPSessionServer
	Listeners  []VerifC18Listener
}

func verifC18UDPListeners(ls []udpRelayServerConn) []VerifC18Listener {
	out := make([]VerifC18Listener, len(ls))
	for i := range ls {
		l := &ls[i]
		out[i] = VerifC18Listener{
			Network:             l.network,
			Address:             l.address,
			BatchMode:           l.batchMode,
			RelayBatchSize:      l.relayBatchSize,
			ServerRecvBatchSize: l.serverRecvBatchSize,
			SendChannelCapacity: l.sendChannelCapacity,
			NATTimeoutNs:        int64(l.natTimeout),
		}
	}
	return out
}

// VerifC18Services lists the relay services of m in start order.
func VerifC18Services(m *Manager) []VerifC18Service {
	var out []VerifC18Service
	for _, s := range m.services {
		switch r := s.(type) {
		case *TCPRelay:
			v := VerifC18Service{Kind: "tcp", ServerName: r.serverName, Server: r.server}
			for i := range r.listeners {
				l := &r.listeners[i]
				v.Listeners = append(v.Listeners, VerifC18Listener{
					Network:                      l.network,
					Address:                      l.address,
					WaitForInitialPayload:        l.waitForInitialPayload,
					InitialPayloadWaitTimeoutNs:  int64(l.initialPayloadWaitTimeout),
					InitialPayloadWaitBufferSize: l.initialPayloadWaitBufferSize,
				})
			}
			out = append(out, v)
		case *UDPNATRelay:
			out = append(out, VerifC18Service{Kind: "udpnat", ServerName: r.serverName, MTU: r.mtu, Server: r.server, Listeners: verifC18UDPListeners(r.listeners)})
		case *UDPSessionRelay:
			out = append(out, VerifC18Service{Kind: "udpsession", ServerName: r.serverName, MTU: r.mtu, Server: r.server, Listeners: verifC18UDPListeners(r.listeners)})
		default:
			out = append(out, VerifC18Service{Kind: "other"})
		}
	}
	return out
}

// VerifC18Router returns the router of m.
func VerifC18Router(m *Manager) *router.Router { return m.router }
