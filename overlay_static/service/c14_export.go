package service

import (
	"net/netip"

	"github.com/database64128/shadowsocks-go/conn"
	"github.com/database64128/shadowsocks-go/stats"
)

// VerifSetCollector replaces the relay's statistics collector (the service only creates a real one when the
// management API is enabled); call before Start.
func (s *UDPNATRelay) VerifSetCollector(c stats.Collector) { s.collector = c }

// VerifSetCollector replaces the relay's statistics collector; call before Start.
func (s *UDPSessionRelay) VerifSetCollector(c stats.Collector) { s.collector = c }

// VerifPoisonQueuedPacket scribbles over a queued packet that was just returned to its pool, as the goroutine
// that takes it out next may do at once: anything still read from it afterwards shows.  The buffer itself
// stays (the next user receives into it).
func VerifPoisonQueuedPacket(x any) {
	switch p := x.(type) {
	case *natQueuedPacket:
		p.start, p.length, p.targetAddr = 7777777, 7777777, conn.Addr{}
		for i := range p.buf {
			p.buf[i] = 0xDD
		}
	case *sessionQueuedPacket:
		p.start, p.length, p.targetAddr, p.clientAddrPort = 7777777, 7777777, conn.Addr{}, netip.AddrPort{}
		for i := range p.buf {
			p.buf[i] = 0xDD
		}
	}
}
