package service

import (
	shadowsocks "github.com/database64128/shadowsocks-go"
	"github.com/database64128/shadowsocks-go/zerocopy"
)

// C05RelayLayout is the packet buffer layout a UDP relay service was
// constructed with by ServerConfig.UDPRelay (check C05 reads it; nothing is
// re-derived there).
type C05RelayLayout struct {
	MTU           int
	FrontHeadroom int
	RecvSize      int
	BufSize       int
	NATServer     zerocopy.UDPNATServer
	SessionServer zerocopy.UDPSessionServer
}

// C05LayoutOf returns the uplink packet buffer layout of a UDP relay service.
// BufSize is the length of a buffer taken from the relay's own packet pool.
func C05LayoutOf(s shadowsocks.Service) (l C05RelayLayout, ok bool) {
	switch r := s.(type) {
	case *UDPNATRelay:
		qp := r.getQueuedPacket()
		l = C05RelayLayout{MTU: r.mtu, FrontHeadroom: r.packetBufFrontHeadroom, RecvSize: r.packetBufRecvSize, BufSize: len(qp.buf), NATServer: r.server}
		r.putQueuedPacket(qp)
		return l, true
	case *UDPSessionRelay:
		qp := r.getQueuedPacket()
		l = C05RelayLayout{MTU: r.mtu, FrontHeadroom: r.packetBufFrontHeadroom, RecvSize: r.packetBufRecvSize, BufSize: len(qp.buf), SessionServer: r.server}
		r.putQueuedPacket(qp)
		return l, true
	}
	return l, false
}

// C05ListenAddr returns the address the first UDP listener of a started relay
// service is bound to ("" when the service has none).
func C05ListenAddr(s shadowsocks.Service) string {
	switch r := s.(type) {
	case *UDPNATRelay:
		if len(r.listeners) > 0 {
			return r.listeners[0].address
		}
	case *UDPSessionRelay:
		if len(r.listeners) > 0 {
			return r.listeners[0].address
		}
	}
	return ""
}
