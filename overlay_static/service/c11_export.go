package service

import "github.com/database64128/shadowsocks-go"

// VerifServices returns the services the manager would run.
func (m *Manager) VerifServices() []shadowsocks.Service { return m.services }

// VerifTableLen returns the number of live NAT entries.
func (s *UDPNATRelay) VerifTableLen() int {
	s.mu.Lock()
	defer s.mu.Unlock()
	return len(s.table)
}

// VerifTableLen returns the number of live sessions.
func (s *UDPSessionRelay) VerifTableLen() int {
	s.mu.Lock()
	defer s.mu.Unlock()
	return len(s.table)
}
