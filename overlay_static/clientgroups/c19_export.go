package clientgroups

import "context"

// VerifC19SetProbe replaces the connectivity test a probe service runs against
// each client (check C19 scripts probe outcomes for UDP groups, whose real
// probe needs a kernel socket).  Everything else - constructors, probe loops,
// result rings, the best-client scan and the atomic switch - is the
// repository's own code.  Must be called before Start.
func (s *ProbeService[C]) VerifC19SetProbe(probe func(ctx context.Context, client C) error) {
	s.pc.probe = probe
}
