package router

import "fmt"

// C10CriterionTypes lists the dynamic types of the route's top-level criteria;
// a leading "!" marks an inverted criterion.  Read-only; used by
// /verif/checks/c10 to tally which port-set representation (single port /
// range list / bit set) the route constructor picked for a range string.
func (r *Route) C10CriterionTypes() []string {
	out := make([]string, 0, len(r.criteria))
	for _, c := range r.criteria {
		out = append(out, c10TypeName(c))
	}
	return out
}

func c10TypeName(c Criterion) string {
	if ic, ok := c.(InvertedCriterion); ok {
		return "!" + c10TypeName(ic.Inner)
	}
	return fmt.Sprintf("%T", c)
}
