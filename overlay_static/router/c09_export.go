package router

import "fmt"

// C09CriterionTypes lists, per route (default route last), the dynamic types
// of the route's top-level criteria; a leading "!" marks an inverted criterion.
// Read-only; used by /verif/checks/c09 to tally which port-criterion
// representation (single port / range set / bit set) a configuration produced.
func (r *Router) C09CriterionTypes() [][]string {
	out := make([][]string, len(r.routes))
	for i := range r.routes {
		for _, c := range r.routes[i].criteria {
			out[i] = append(out[i], c09TypeName(c))
		}
	}
	return out
}

func c09TypeName(c Criterion) string {
	if ic, ok := c.(InvertedCriterion); ok {
		return "!" + c09TypeName(ic.Inner)
	}
	return fmt.Sprintf("%T", c)
}
