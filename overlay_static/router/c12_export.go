package router

import "github.com/database64128/shadowsocks-go/zerocopy"

// VerifWrapUDPClients replaces the UDP client of every route (the default route included) by wrap(client), so
// that a harness can count the client sessions the relays open and close.
func (r *Router) VerifWrapUDPClients(wrap func(zerocopy.UDPClient) zerocopy.UDPClient) {
	for i := range r.routes {
		if r.routes[i].udpClient != nil {
			r.routes[i].udpClient = wrap(r.routes[i].udpClient)
		}
	}
}
