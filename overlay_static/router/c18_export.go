package router

import (
	"github.com/database64128/shadowsocks-go/netio"
	"github.com/database64128/shadowsocks-go/zerocopy"
)

// VerifC18RouteClients returns, for every route of r in order (the default
// route last), its name and its TCP and UDP clients (nil = reject).
func VerifC18RouteClients(r *Router) (names []string, tcp []netio.StreamClient, udp []zerocopy.UDPClient) {
	for i := range r.routes {
		names = append(names, r.routes[i].name)
		tcp = append(tcp, r.routes[i].tcpClient)
		udp = append(udp, r.routes[i].udpClient)
	}
	return
}
