package httpproxy

import "github.com/database64128/shadowsocks-go/conn"

// C06HostHeaderToAddr exposes hostHeaderToAddr to the C06 check.
func C06HostHeaderToAddr(host string) (conn.Addr, error) { return hostHeaderToAddr(host) }
