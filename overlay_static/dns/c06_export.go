package dns

import "net/netip"

// C06ParseMsg runs resultBuilder.parseMsg on a fresh (or partly done) builder for the C06 check.
func C06ParseMsg(msg []byte, isUDP, v4done, v6done bool) (id uint16, a, aaaa []netip.Addr, v4, v6 bool, err error) {
	r := resultBuilder{v4done: v4done, v6done: v6done}
	h, err := r.parseMsg(msg, isUDP)
	return h.ID, r.a, r.aaaa, r.v4done, r.v6done, err
}
