package ss2022

// White-box accessors for check C04 (compiled in through the build overlay only).

// VerifC04FilterLast returns the highest accepted counter of the filter.
func VerifC04FilterLast(f *SlidingWindowFilter) uint64 { return f.last }

// VerifC04FilterRing returns the filter's ring words (aliased, not copied).
func VerifC04FilterRing(f *SlidingWindowFilter) []uint { return f.ring }

// VerifC04FilterSetLast rewinds the filter's highest accepted counter
// (used together with a ring copy to restore a snapshot taken earlier).
func VerifC04FilterSetLast(f *SlidingWindowFilter, last uint64) { f.last = last }

// VerifC04ClientPackerSetPacketID sets the ID the client packer stamps on its next packet.
func VerifC04ClientPackerSetPacketID(p *ShadowPacketClientPacker, id uint64) { p.cpid = id }

// VerifC04ServerPackerSetPacketID sets the ID the server packer stamps on its next packet.
func VerifC04ServerPackerSetPacketID(p *ShadowPacketServerPacker, id uint64) { p.spid = id }

// VerifC04ClientPackerSessionID returns the client session ID of the packer.
func VerifC04ClientPackerSessionID(p *ShadowPacketClientPacker) uint64 { return p.csid }

// VerifC04ServerPackerSessionID returns the server session ID of the packer.
func VerifC04ServerPackerSessionID(p *ShadowPacketServerPacker) uint64 { return p.ssid }
