package ss2022

// White-box getters for check C18.  Read-only.

// VerifC18RejectPolicy returns the reject policy a stream server will invoke.
func VerifC18RejectPolicy(s *StreamServer) RejectPolicy { return s.rejectPolicy }

// VerifC18UDPServerParams returns the padding policy and filter size of a UDP server.
func VerifC18UDPServerParams(s *UDPServer) (PaddingPolicy, uint64) { return s.shouldPad, s.filterSize }

// VerifC18UDPClientParams returns the padding policy, filter size and network of a UDP client.
func VerifC18UDPClientParams(c *UDPClient) (PaddingPolicy, uint64, string) {
	return c.shouldPad, c.filterSize, c.network
}
