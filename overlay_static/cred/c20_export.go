package cred

// VerifSaveNow performs one save exactly as dequeueSave does (under the read lock).
func (s *ManagedServer) VerifSaveNow() error {
	s.mu.RLock()
	defer s.mu.RUnlock()
	return s.saveToFile()
}

// VerifPath returns the credential file path.
func (s *ManagedServer) VerifPath() string { return s.path }
