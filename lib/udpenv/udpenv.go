// Package udpenv builds the real UDP relay services from a JSON configuration
// (through service.Config.Manager) on loopback addresses that are unique per
// process, and provides scheduler-aware harness clients and echo targets that
// speak each server protocol with the repository's own client packers.
package udpenv

import (
	"context"
	"encoding/base64"
	"encoding/json"
	"fmt"
	"net"
	"net/netip"
	"os"
	"path/filepath"
	"strings"
	"time"

	"github.com/database64128/shadowsocks-go"
	"github.com/database64128/shadowsocks-go/conn"
	"github.com/database64128/shadowsocks-go/direct"
	"github.com/database64128/shadowsocks-go/router"
	"github.com/database64128/shadowsocks-go/service"
	"github.com/database64128/shadowsocks-go/ss2022"
	"github.com/database64128/shadowsocks-go/stats"
	"github.com/database64128/shadowsocks-go/zerocopy"
	"go.uber.org/zap"

	"verif/harness"
	vcontext "verif/shim/vcontext"
	"verif/shim/vsync"
	"verif/vnet/vudp"
	"verif/vsched"
)

// PSK is the key used by SS2022 servers and harness clients.
var PSK = []byte("0123456789abcdef")

// UserPSK are the users of a multi-user (ss2022mu) server; harness client i is alice when i is even, bob when odd.
var UserPSK = map[string][]byte{"alice": []byte("alice-upsk-16byt"), "bob": []byte("bob---upsk-16byt")}

var upskPath string

// upskStore writes the uPSK store file once per process (removed when the harness exits).
func upskStore() string {
	if upskPath == "" {
		dir := harness.TempDir("upsk")
		upskPath = filepath.Join(dir, "upsks.json")
		b, _ := json.Marshal(UserPSK)
		if err := os.WriteFile(upskPath, b, 0o600); err != nil {
			panic(err)
		}
	}
	return upskPath
}

// UpstreamPSK is the key between the relay's outgoing SS2022 client and the harness upstream.
var UpstreamPSK = []byte("fedcba9876543210")

// Spec selects the relay under test.
type Spec struct {
	Server      string // direct none socks5 ss2022
	Batch       string // "no" or "sendmmsg"
	NATTimeout  string // e.g. "60s"
	DefaultUDP  string // router default: "" (the direct client) or "reject"
	SendChanCap int
	TargetOnly  bool   // direct tunnel: tunnelUDPTargetOnly
	Client      string // outgoing client: "" / direct, none, ss2022 (towards a harness upstream proxy)
	// Wildcard makes the listener bind 0.0.0.0 (port derived from the pid), so that clients can reach it
	// through several local addresses (127.A.B.1, 127.A.B.2, ...) and replies must leave from the same one.
	Wildcard bool
	// DualStack makes the listener bind [::] (network "udp"), reachable as 127.A.B.1 and as ::1.
	DualStack bool
}

// Env is one instance of the services.
type Env struct {
	Spec     Spec
	A, B     byte
	Services []shadowsocks.Service
	Server   netip.AddrPort
	started  []shadowsocks.Service
	cancel   context.CancelFunc
	port6    uint16 // source port of a client that moved to ::1
	Tunnel   netip.AddrPort
	Upstream netip.AddrPort // address of the harness upstream proxy (outgoing clients other than direct)
	// OpenSessions is the number of outgoing client sessions the relays have opened and not closed.
	OpenSessions int
	// Collector is the real statistics collector the UDP relays record into.
	Collector stats.Collector
}

// countingClient counts the sessions opened through a relay's outgoing client and not yet closed.
type countingClient struct {
	zerocopy.UDPClient
	e *Env
}

func (c *countingClient) NewSession(ctx context.Context) (zerocopy.UDPClientSessionInfo, zerocopy.UDPClientSession, error) {
	info, sess, err := c.UDPClient.NewSession(ctx)
	if err == nil {
		c.e.OpenSessions++
		inner, closed := sess.Close, false
		sess.Close = func() error {
			if !closed {
				closed = true
				c.e.OpenSessions--
			}
			if inner == nil {
				return nil
			}
			return inner()
		}
	}
	return info, sess, err
}

// freePort returns a port at or after base on which a socket can be bound at host right now.  Wildcard
// listeners cannot use the per-process 127.A.B.x addresses that keep parallel workers apart, so their port
// is derived from the pid, kept below the kernel's ephemeral range (any socket of any process that happens to
// hold the same port would make the bind fail), and probed.  Observations show it as ":wport".
func freePort(network, host string, base int) uint16 {
	for p := base; p < base+500; p++ {
		a, err := net.ResolveUDPAddr(network, fmt.Sprintf("%s:%d", host, p))
		if err != nil {
			continue
		}
		c, err := net.ListenUDP(network, a)
		if err != nil {
			continue
		}
		c.Close()
		return uint16(p)
	}
	panic("udpenv: no free port")
}

// IP returns 127.A.B.last.
func (e *Env) IP(last byte) netip.Addr { return netip.AddrFrom4([4]byte{127, e.A, e.B, last}) }

// New builds the services (nothing is started).
func New(sp Spec) (*Env, error) {
	pid := os.Getpid()
	e := &Env{Spec: sp, A: byte(1 + (pid>>8)%250), B: byte(pid % 256)}
	e.Server = netip.AddrPortFrom(e.IP(1), 5000)
	listen := e.Server.String()
	network := "udp4"
	if sp.Wildcard {
		e.Server = netip.AddrPortFrom(e.IP(1), freePort("udp4", "0.0.0.0", 10000+pid%10000))
		listen = fmt.Sprintf("0.0.0.0:%d", e.Server.Port())
	}
	if sp.DualStack {
		e.Server = netip.AddrPortFrom(e.IP(1), freePort("udp", "[::]", 10000+pid%10000))
		listen = fmt.Sprintf("[::]:%d", e.Server.Port())
		network = "udp"
	}
	e.Tunnel = netip.AddrPortFrom(e.IP(101), 7000)
	proto := map[string]string{"direct": "direct", "none": "none", "socks5": "socks5", "ss2022": "2022-blake3-aes-128-gcm", "ss2022mu": "2022-blake3-aes-128-gcm"}[sp.Server]
	if proto == "" {
		return nil, fmt.Errorf("unknown server protocol %q", sp.Server)
	}
	if sp.NATTimeout == "" {
		sp.NATTimeout = "60s"
	}
	srv := map[string]any{
		"name": "s", "protocol": proto, "mtu": 1500,
		"udpListeners": []map[string]any{{"network": network, "address": listen, "batchMode": sp.Batch, "natTimeout": sp.NATTimeout, "sendChannelCapacity": sp.SendChanCap}},
	}
	switch sp.Server {
	case "direct":
		srv["tunnelRemoteAddress"] = e.Tunnel.String()
		srv["tunnelUDPTargetOnly"] = sp.TargetOnly
	case "ss2022":
		srv["psk"] = base64.StdEncoding.EncodeToString(PSK)
	case "ss2022mu":
		// multi-user: PSK is the identity key; users alice and bob come from a uPSK store file
		srv["psk"] = base64.StdEncoding.EncodeToString(PSK)
		srv["uPSKStorePath"] = upskStore()
	}
	e.Upstream = netip.AddrPortFrom(e.IP(200), 8000)
	cl := map[string]any{"name": "c", "protocol": "direct", "network": "ip4", "enableUDP": true, "mtu": 1500}
	switch sp.Client {
	case "none":
		cl = map[string]any{"name": "c", "protocol": "none", "network": "ip4", "endpoint": e.Upstream.String(), "enableUDP": true, "mtu": 1500}
	case "ss2022":
		cl = map[string]any{"name": "c", "protocol": "2022-blake3-aes-128-gcm", "network": "ip4", "endpoint": e.Upstream.String(), "enableUDP": true, "mtu": 1500, "psk": base64.StdEncoding.EncodeToString(UpstreamPSK)}
	}
	cfg := map[string]any{
		"servers": []any{srv},
		"clients": []any{cl},
	}
	if sp.DefaultUDP != "" {
		cfg["router"] = map[string]any{"defaultUDPClientName": sp.DefaultUDP}
	}
	b, _ := json.Marshal(cfg)
	var sc service.Config
	if err := json.Unmarshal(b, &sc); err != nil {
		return nil, fmt.Errorf("config: %w", err)
	}
	m, err := sc.Manager(zap.NewNop())
	if err != nil {
		return nil, fmt.Errorf("manager: %w", err)
	}
	e.Services = m.VerifServices()
	// the relays record into a real collector (the service itself only creates one when the API is enabled)
	e.Collector = stats.NewServerCollector()
	for _, s := range e.Services {
		switch r := s.(type) {
		case *service.UDPNATRelay:
			r.VerifSetCollector(e.Collector)
		case *service.UDPSessionRelay:
			r.VerifSetCollector(e.Collector)
		}
	}
	// every client session a relay opens is counted, and so is its Close: a session the relay forgets to close
	// keeps whatever the client protocol tied to it (the SOCKS5 client: a TCP control connection and a goroutine)
	seen := map[*router.Router]bool{}
	for _, s := range e.Services {
		var rt *router.Router
		switch r := s.(type) {
		case *service.UDPNATRelay:
			rt = r.VerifRouter()
		case *service.UDPSessionRelay:
			rt = r.VerifRouter()
		}
		if rt != nil && !seen[rt] {
			seen[rt] = true
			rt.VerifWrapUDPClients(func(c zerocopy.UDPClient) zerocopy.UDPClient { return &countingClient{c, e} })
		}
	}
	// a queued packet returned to its pool may be recycled at once by another goroutine: model that by
	// scribbling over it, so that anything read from it after the Put is visible
	vsync.PoisonOnPut = service.VerifPoisonQueuedPacket
	return e, nil
}

// Start starts every service in order.
func (e *Env) Start(ctx context.Context) error {
	// as service.Manager.Run: the services run under a context that is cancelled before they are stopped
	ctx, e.cancel = vcontext.WithCancel(ctx)
	for _, s := range e.Services {
		if err := s.Start(ctx); err != nil {
			return err
		}
		e.started = append(e.started, s)
	}
	return nil
}

// Stop stops every started service.
func (e *Env) Stop() {
	if e.cancel != nil {
		e.cancel()
	}
	for _, s := range e.started {
		s.Stop()
	}
	e.started = nil
}

// TableLen returns the relay's number of live sessions, or -1.
func (e *Env) TableLen() int {
	for _, s := range e.Services {
		switch r := s.(type) {
		case *service.UDPNATRelay:
			return r.VerifTableLen()
		case *service.UDPSessionRelay:
			return r.VerifTableLen()
		}
	}
	return -1
}

// Client is a harness client speaking the server's protocol.
type Client struct {
	e     *Env
	Sock  *net.UDPConn
	Addr  netip.AddrPort
	sess  zerocopy.UDPClientSession
	front int
	raw   bool
	Name  string
	// User is the client's user name on a multi-user server.
	User string
	// Via is the relay address this client talks to (the listener's address, or one of the local addresses
	// of a wildcard listener); replies must come from exactly this address.
	Via netip.AddrPort
}

// NewClient opens harness client i (address 127.A.B.(10+i):6000+port).
func (e *Env) NewClient(i int, port uint16) *Client {
	return e.NewClientAt(i, byte(10+i), port)
}

// NewClientAt opens harness client i at 127.A.B.ipLast:6000+port (several
// clients may share one IP address and differ only in the port).
func (e *Env) NewClientAt(i int, ipLast byte, port uint16) *Client {
	addr := netip.AddrPortFrom(e.IP(ipLast), 6000+port)
	c := &Client{e: e, Addr: addr, Name: fmt.Sprintf("client%d", i), Via: e.Server, User: []string{"alice", "bob"}[i%2]}
	c.Sock = vudp.Listen(addr.String(), c.Name)
	c.newSession()
	return c
}

// NewClientVia opens harness client i talking to the wildcard listener through local address 127.A.B.viaLast.
func (e *Env) NewClientVia(i int, viaLast byte) *Client {
	addr := netip.AddrPortFrom(e.IP(byte(10+i)), 6000)
	c := &Client{e: e, Addr: addr, Name: fmt.Sprintf("client%d", i), Via: netip.AddrPortFrom(e.IP(viaLast), e.Server.Port()), User: []string{"alice", "bob"}[i%2]}
	c.Sock = vudp.Listen(addr.String(), c.Name)
	c.newSession()
	return c
}

func (c *Client) newSession() {
	e := c.e
	switch e.Spec.Server {
	case "direct":
		c.raw = true
	case "none":
		_, s, err := direct.NewShadowsocksNoneUDPClient("h", "udp4", conn.AddrFromIPPort(c.Via), 1500, conn.ListenConfig{}).NewSession(context.Background())
		if err != nil {
			panic(err)
		}
		c.sess, c.front = s, 300
	case "socks5":
		c.sess = zerocopy.UDPClientSession{MaxPacketSize: 1472, Packer: direct.NewSocks5PacketClientPacker(c.Via, 1472), Unpacker: direct.NewSocks5PacketClientUnpacker(c.Via)}
		c.front = 300
	case "ss2022mu":
		ccc, err := ss2022.NewClientCipherConfig(UserPSK[c.User], [][]byte{PSK}, true)
		if err != nil {
			panic(err)
		}
		_, s, err := ss2022.NewUDPClient("h", "udp4", conn.AddrFromIPPort(c.Via), 1500, conn.ListenConfig{}, 0, ccc, ss2022.NoPadding).NewSession(context.Background())
		if err != nil {
			panic(err)
		}
		c.sess, c.front = s, 300
	case "ss2022":
		ccc, err := ss2022.NewClientCipherConfig(PSK, nil, true)
		if err != nil {
			panic(err)
		}
		_, s, err := ss2022.NewUDPClient("h", "udp4", conn.AddrFromIPPort(c.Via), 1500, conn.ListenConfig{}, 0, ccc, ss2022.NoPadding).NewSession(context.Background())
		if err != nil {
			panic(err)
		}
		c.sess, c.front = s, 300
	}
}

// Rebind moves the client to a new source port (client address change).
func (c *Client) Rebind(port uint16) {
	vudp.UDP_Close(c.Sock)
	c.Addr = netip.AddrPortFrom(c.Addr.Addr(), 6000+port)
	c.Sock = vudp.Listen(c.Addr.String(), c.Name+"'")
}

// RebindV6 moves the client, session unchanged, to [::1] (client address change across address families); the
// listener must be dual-stack.
func (c *Client) RebindV6() {
	vudp.UDP_Close(c.Sock)
	c.Addr = netip.AddrPortFrom(netip.IPv6Loopback(), freePort("udp6", "[::1]", 20000+os.Getpid()%10000))
	c.e.port6 = c.Addr.Port()
	c.Sock = vudp.Listen(c.Addr.String(), c.Name+"v6")
	c.Via = netip.AddrPortFrom(netip.IPv6Loopback(), c.e.Server.Port())
}

// Send packs payload for target and sends it to the relay.
func (c *Client) Send(target conn.Addr, payload []byte) error {
	if c.raw {
		_, err := vudp.UDP_WriteToUDPAddrPort(c.Sock, payload, c.Via)
		return err
	}
	buf := make([]byte, 4096)
	copy(buf[c.front:], payload)
	dest, ps, pl, err := c.sess.Packer.PackInPlace(context.Background(), buf, target, c.front, len(payload))
	if err != nil {
		return err
	}
	_ = dest // the session was made for c.Via; after RebindV6 the same session talks to the listener's IPv6 address
	_, err = vudp.UDP_WriteToUDPAddrPort(c.Sock, buf[ps:ps+pl], c.Via)
	return err
}

// SendRaw sends bytes to the relay as they are.
func (c *Client) SendRaw(b []byte) error {
	_, err := vudp.UDP_WriteToUDPAddrPort(c.Sock, b, c.Via)
	return err
}

// Canon replaces this process's loopback prefix so that observations are
// identical across processes.
func (e *Env) Canon(s string) string {
	if e.Spec.Wildcard || e.Spec.DualStack {
		s = strings.ReplaceAll(s, fmt.Sprintf(":%d", e.Server.Port()), ":wport")
		if e.port6 != 0 {
			s = strings.ReplaceAll(s, fmt.Sprintf(":%d", e.port6), ":cport6")
		}
	}
	return strings.ReplaceAll(s, fmt.Sprintf("127.%d.%d.", e.A, e.B), "127.a.b.")
}

// Recv waits up to d (virtual; 0 = for ever) for a reply and unpacks it.
func (c *Client) Recv(d time.Duration) (src netip.AddrPort, payload []byte, err error) {
	if d > 0 {
		vudp.UDP_SetReadDeadline(c.Sock, vsched.Now().Add(d))
	}
	buf := make([]byte, 4096)
	n, from, err := vudp.UDP_ReadFromUDPAddrPort(c.Sock, buf[c.front:])
	if err != nil {
		return netip.AddrPort{}, nil, err
	}
	if from != c.Via {
		return from, nil, fmt.Errorf("reply from %v, not from the relay", from)
	}
	if c.raw {
		return netip.AddrPort{}, append([]byte(nil), buf[c.front:c.front+n]...), nil
	}
	src, ps, pl, err := c.sess.Unpacker.UnpackInPlace(buf, from, c.front, n)
	if err != nil {
		return netip.AddrPort{}, nil, fmt.Errorf("unpack: %w", err)
	}
	return src, append([]byte(nil), buf[ps:ps+pl]...), nil
}

// Close closes the client's socket.
func (c *Client) Close() { vudp.UDP_Close(c.Sock) }

// Got is one datagram seen by a target.
type Got struct {
	Payload string
	From    netip.AddrPort
}

// Target is an echo server.
type Target struct {
	Sock *net.UDPConn
	Addr netip.AddrPort
	Got  []Got
	Name string
	Echo bool
	// OversizeFirst makes the target send a datagram too large for the client's path right before
	// each echo, so that the relay's downlink sees a datagram it must skip followed by a good one.
	OversizeFirst bool
}

// NewTarget opens echo target i at 127.A.B.(100+i):7000.
func (e *Env) NewTarget(i int) *Target {
	addr := netip.AddrPortFrom(e.IP(byte(100+i)), 7000)
	t := &Target{Addr: addr, Name: fmt.Sprintf("target%d", i), Echo: true}
	t.Sock = vudp.Listen(addr.String(), t.Name)
	return t
}

// NewTargetAt opens an echo target at 127.A.B.(100+i):port (several targets may share one address).
func (e *Env) NewTargetAt(i int, port uint16) *Target {
	addr := netip.AddrPortFrom(e.IP(byte(100+i)), port)
	t := &Target{Addr: addr, Name: fmt.Sprintf("target%d:%d", i, port), Echo: true}
	t.Sock = vudp.Listen(addr.String(), t.Name)
	return t
}

// Serve echoes until the socket is closed.
func (t *Target) Serve() {
	buf := make([]byte, 4096)
	for {
		n, from, err := vudp.UDP_ReadFromUDPAddrPort(t.Sock, buf)
		if err != nil {
			return
		}
		t.Got = append(t.Got, Got{string(buf[:n]), from})
		if t.Echo && t.OversizeFirst {
			big := make([]byte, 1480)
			for i := range big {
				big[i] = 'Z'
			}
			vudp.UDP_WriteToUDPAddrPort(t.Sock, big, from)
		}
		if t.Echo {
			reply := "echo:" + string(buf[:n])
			var size int
			if _, err := fmt.Sscanf(string(buf[:n]), "size:%d", &size); err == nil && size > 0 && size < 4000 {
				reply = strings.Repeat("R", size) // a reply of exactly the requested size
			}
			if _, err := vudp.UDP_WriteToUDPAddrPort(t.Sock, []byte(reply), from); err != nil {
				return
			}
		}
	}
}

// Close closes the target's socket.
func (t *Target) Close() { vudp.UDP_Close(t.Sock) }

// Payloads lists what the target received.
func (t *Target) Payloads() string {
	var p []string
	for _, g := range t.Got {
		p = append(p, fmt.Sprintf("%q", g.Payload))
	}
	return strings.Join(p, ",")
}

// UpGot is one datagram seen by the upstream proxy.
type UpGot struct {
	Payload string
	Target  string // the destination carried inside the proxy protocol
	From    netip.AddrPort
}

// UpstreamProxy plays the proxy server the relay's outgoing client talks to: it
// unpacks every datagram with the repository's own server-side unpackers,
// records the destination carried inside, and answers "echo:<payload>" claiming
// a source derived from that destination.
type UpstreamProxy struct {
	e     *Env
	Sock  *net.UDPConn
	Proto string
	Got   []UpGot
	// ClaimedSource maps a carried destination to the source attached to the reply
	ClaimedSource func(target conn.Addr) netip.AddrPort
}

// NewUpstream opens the upstream proxy socket.
func (e *Env) NewUpstream() *UpstreamProxy {
	return &UpstreamProxy{e: e, Proto: e.Spec.Client, Sock: vudp.Listen(e.Upstream.String(), "upstream")}
}

// Close closes the upstream socket.
func (u *UpstreamProxy) Close() { vudp.UDP_Close(u.Sock) }

// Serve handles datagrams until the socket is closed.
func (u *UpstreamProxy) Serve() {
	type sess struct {
		unp zerocopy.ServerUnpacker
		pk  zerocopy.ServerPacker
	}
	var ssSrv *ss2022.UDPServer
	if u.Proto == "ss2022" {
		ucc, err := ss2022.NewUserCipherConfig(UpstreamPSK, true)
		if err != nil {
			panic(err)
		}
		ssSrv = ss2022.NewUDPServer(0, ucc, ss2022.ServerIdentityCipherConfig{}, ss2022.NoPadding)
	}
	byAddr := map[netip.AddrPort]*sess{}
	byCSID := map[uint64]*sess{}
	const front = 300
	for {
		buf := make([]byte, 4096)
		n, from, err := vudp.UDP_ReadFromUDPAddrPort(u.Sock, buf[front:])
		if err != nil {
			return
		}
		var s *sess
		switch u.Proto {
		case "none":
			s = byAddr[from]
			if s == nil {
				unp, _ := direct.ShadowsocksNoneUDPNATServer{}.NewUnpacker()
				s = &sess{unp: unp}
				byAddr[from] = s
			}
		case "ss2022":
			csid, err := ssSrv.SessionInfo(buf[front : front+n])
			if err != nil {
				continue
			}
			s = byCSID[csid]
			if s == nil {
				unp, _, err := ssSrv.NewUnpacker(buf[front:front+n], csid)
				if err != nil {
					continue
				}
				s = &sess{unp: unp}
				byCSID[csid] = s
			}
		}
		target, ps, pl, err := s.unp.UnpackInPlace(buf, from, front, n)
		if err != nil {
			u.Got = append(u.Got, UpGot{Payload: "unpack-error: " + err.Error(), From: from})
			continue
		}
		payload := string(buf[ps : ps+pl])
		u.Got = append(u.Got, UpGot{Payload: payload, Target: target.String(), From: from})
		if s.pk == nil {
			if s.pk, err = s.unp.NewPacker(); err != nil {
				continue
			}
		}
		src := netip.AddrPortFrom(netip.AddrFrom4([4]byte{203, 0, 113, 9}), target.Port())
		if target.IsIP() {
			src = target.IPPort()
		} else if u.ClaimedSource != nil {
			src = u.ClaimedSource(target)
		}
		out := make([]byte, 4096)
		reply := "echo:" + payload
		copy(out[front:], reply)
		rs, rl, err := s.pk.PackInPlace(out, src, front, len(reply), 1472)
		if err != nil {
			continue
		}
		if _, err := vudp.UDP_WriteToUDPAddrPort(u.Sock, out[rs:rs+rl], from); err != nil {
			return
		}
	}
}
