// Package tcprelay holds the TCP relay scenario family shared by C13 (routing, payload, half-closes) and
// C14 (what the relay records as the session's traffic): the real TCPRelay.handleConn (parameter widened to
// netio.Conn by the overlay) runs over scheduler-aware in-memory connections with a real protocol server in
// front, a real router, a recording stats collector and either a stub outgoing client or a real chained
// client (http, socks5, ss2022) talking to the real server of its protocol.
package tcprelay

import (
	"bytes"
	"context"
	"errors"
	"fmt"
	"io"
	"net/netip"
	"sort"
	"strings"
	"time"

	"github.com/database64128/shadowsocks-go/conn"
	"github.com/database64128/shadowsocks-go/httpproxy"
	"github.com/database64128/shadowsocks-go/netio"
	"github.com/database64128/shadowsocks-go/router"
	"github.com/database64128/shadowsocks-go/service"
	"github.com/database64128/shadowsocks-go/socks5"
	"github.com/database64128/shadowsocks-go/ss2022"
	"github.com/database64128/shadowsocks-go/ssnone"
	"github.com/database64128/shadowsocks-go/stats"
	"go.uber.org/zap"

	"verif/vnet"
	"verif/vsched"
)

type Spec struct {
	Server  string // tunnel socks5 ss2022 http ssnone
	Native  bool   // outgoing client supports native initial payload
	Wait    bool   // listener waits for the initial payload
	Payload string // none early late eofData eofNoData
	Dial    string // ok refused unreachable reject
	Order   string // clientFirst targetFirst
	Target  string // ip domain
	Client  string // outgoing client: stub (records the dial), or a real http / socks5 / ss2022 client chained to a harness upstream that runs the real server of that protocol
}

func (s Spec) String() string {
	cl := s.Client
	if cl == "" {
		cl = "stub"
	}
	return fmt.Sprintf("server=%s;native=%v;wait=%v;payload=%s;dial=%s;order=%s;target=%s;client=%s", s.Server, s.Native, s.Wait, s.Payload, s.Dial, s.Order, s.Target, cl)
}

// Parse reads a parameter string.
func Parse(p string) Spec {
	var s Spec
	for _, kv := range strings.Split(p, ";") {
		k, v, _ := strings.Cut(kv, "=")
		switch k {
		case "server":
			s.Server = v
		case "native":
			s.Native = v == "true"
		case "wait":
			s.Wait = v == "true"
		case "payload":
			s.Payload = v
		case "dial":
			s.Dial = v
		case "order":
			s.Order = v
		case "target":
			s.Target = v
		case "client":
			s.Client = v
		}
	}
	return s
}

// stub outgoing client
type stubClient struct {
	native    bool
	dialErr   error
	gotAddr   conn.Addr
	gotPay    []byte
	dialed    int
	far       *vnet.Conn
	near      *vnet.Conn
	haveConn  bool
	transport bool // used as the transport under a real outgoing client: the payload is the proxy handshake and is written to the connection
}

func (c *stubClient) NewStreamDialer() (netio.StreamDialer, netio.StreamDialerInfo) {
	return c, netio.StreamDialerInfo{Name: "stub", NativeInitialPayload: c.native}
}

func (c *stubClient) DialStream(ctx context.Context, addr conn.Addr, payload []byte) (netio.Conn, error) {
	vsched.Point("stub.Dial")
	c.dialed++
	c.gotAddr = addr
	c.gotPay = append([]byte(nil), payload...)
	if c.dialErr != nil {
		return nil, c.dialErr
	}
	c.near, c.far = vnet.Pair("relay>target", "target", 1<<16)
	if c.transport && len(payload) > 0 {
		if _, err := c.near.Write(payload); err != nil {
			return nil, err
		}
	}
	c.haveConn = true
	return c.near, nil
}

// inner client handing out the client end of the client<->relay connection
type innerClient struct{ c *vnet.Conn }

func (i innerClient) NewStreamDialer() (netio.StreamDialer, netio.StreamDialerInfo) {
	return i, netio.StreamDialerInfo{}
}
func (i innerClient) DialStream(ctx context.Context, addr conn.Addr, payload []byte) (netio.Conn, error) {
	if len(payload) > 0 {
		if _, err := i.c.Write(payload); err != nil {
			return nil, err
		}
	}
	return i.c, nil
}

type httpFront struct{ inner innerClient }

func (h httpFront) NewStreamDialer() (netio.StreamDialer, netio.StreamDialerInfo) {
	return h, netio.StreamDialerInfo{}
}
func (h httpFront) DialStream(ctx context.Context, addr conn.Addr, payload []byte) (netio.Conn, error) {
	c, err := httpproxy.ClientConnect(h.inner.c, addr, "")
	if err != nil {
		return nil, err
	}
	if len(payload) > 0 {
		if _, err := c.Write(payload); err != nil {
			return nil, err
		}
	}
	return c, nil
}

// probeFront is a client that does not speak Shadowsocks at all: it sends an HTTP-looking probe (long enough
// for the server to try to open it as a request header) followed by the payload.  An SS2022 server with
// unsafeFallbackAddress must hand such a connection, every byte intact, to the fallback address.
type probeFront struct{ inner innerClient }

var fallbackProbe = []byte("GET /index.html HTTP/1.1\r\nHost: fallback.example\r\nUser-Agent: probe/1.0\r\nAccept: */*\r\n\r\n")

func (p probeFront) NewStreamDialer() (netio.StreamDialer, netio.StreamDialerInfo) {
	return p, netio.StreamDialerInfo{Name: "probe", NativeInitialPayload: true}
}

func (p probeFront) DialStream(ctx context.Context, addr conn.Addr, payload []byte) (netio.Conn, error) {
	if _, err := p.inner.c.Write(append(append([]byte(nil), fallbackProbe...), payload...)); err != nil {
		return nil, err
	}
	return p.inner.c, nil
}

type collector struct {
	stats.Collector
	calls []string
}

func (c *collector) CollectTCPSession(u string, down, up uint64) {
	c.calls = append(c.calls, fmt.Sprintf("%s/%d/%d", u, down, up))
}

var (
	tunnelTarget   = conn.AddrFromIPPort(netip.MustParseAddrPort("192.0.2.7:443"))
	domainTarget   = conn.MustAddrFromDomainPort("example.test", 8080)
	fallbackTarget = conn.AddrFromIPPort(netip.MustParseAddrPort("192.0.2.80:80"))
	psk            = []byte("0123456789abcdef")
	upskAlice      = []byte("alice-upsk-16byt")
	upskBob        = []byte("bob---upsk-16byt")
)

func must[T any](v T, err error) T {
	if err != nil {
		panic(err)
	}
	return v
}

// Scenario builds the relay scenario for one parameter string (see Spec).
func Scenario(param string) vsched.Scenario {
	sp := Parse(param)
	return func() (func(), func(*vsched.Exec) (string, string)) {
		var upServer netio.StreamServer
		var (
			stub                                       = &stubClient{native: sp.Native}
			col                                        = &collector{Collector: stats.NoopCollector{}}
			clientSent                                 []byte
			clientGot                                  []byte
			targetGot                                  []byte
			targetSent                                 []byte
			clientEOF                                  bool
			targetEOF                                  bool
			dialErrSeen                                error
			clientErr                                  error
			targetErr                                  error
			relayDone                                  bool
			want                                       conn.Addr
			cEnd, rEnd                                 *vnet.Conn
			targetEOFBeforeReply, clientEOFBeforeReply bool
			upAddr                                     conn.Addr
			upPay                                      []byte
			upSeen                                     bool
			wantUser                                   string // the user the session must be charged to
		)
		switch sp.Dial {
		case "refused":
			stub.dialErr = vnet.ErrRefused
		case "unreachable":
			stub.dialErr = errors.New("no route to host")
		}
		body := func() {
			want = tunnelTarget
			if sp.Target == "domain" && sp.Server != "tunnel" {
				want = domainTarget
			}
			if sp.Server == "ss2022fb" {
				want = fallbackTarget
			}
			var server netio.StreamServer
			cEnd, rEnd = vnet.Pair("client", "relay<client", 1<<16)
			if sp.Payload == "eofDataSameRead" {
				rEnd.EOFWithData = true // the last bytes arrive together with end-of-stream in one Read
			}
			inner := innerClient{cEnd}
			var front netio.StreamClient
			switch sp.Server {
			case "tunnel":
				server = netio.NewStreamProxyServer(tunnelTarget)
				front = inner
			case "socks5":
				server = must((&socks5.StreamServerConfig{EnableTCP: true}).NewStreamServer())
				front = (&socks5.StreamClientConfig{Name: "f", InnerClient: inner, Addr: tunnelTarget}).NewStreamClient()
			case "ssnone":
				server = ssnone.StreamServer{}
				front = (&ssnone.StreamClientConfig{Name: "f", InnerClient: inner, Addr: tunnelTarget}).NewStreamClient()
			case "http":
				server = must((&httpproxy.ServerConfig{}).NewProxyServer())
				front = httpFront{inner}
			case "ss2022":
				server = (&ss2022.StreamServerConfig{UserCipherConfig: must(ss2022.NewUserCipherConfig(psk, false))}).NewStreamServer()
				front = (&ss2022.StreamClientConfig{Name: "f", InnerClient: inner, Addr: tunnelTarget, CipherConfig: must(ss2022.NewClientCipherConfig(psk, nil, false))}).NewStreamClient()
			}
			if sp.Server == "ss2022mu" {
				// multi-user server: the identity key is psk, the client authenticates as bob
				srv := (&ss2022.StreamServerConfig{IdentityCipherConfig: must(ss2022.NewServerIdentityCipherConfig(psk, false))}).NewStreamServer()
				srv.ReplaceUserLookupMap(ss2022.UserLookupMap{
					ss2022.PSKHash(upskAlice): must(ss2022.NewServerUserCipherConfig("alice", upskAlice, false)),
					ss2022.PSKHash(upskBob):   must(ss2022.NewServerUserCipherConfig("bob", upskBob, false)),
				})
				server = srv
				front = (&ss2022.StreamClientConfig{Name: "f", InnerClient: inner, Addr: tunnelTarget, CipherConfig: must(ss2022.NewClientCipherConfig(upskBob, [][]byte{psk}, false))}).NewStreamClient()
				wantUser = "bob"
			}
			if sp.Server == "ss2022fb" {
				server = (&ss2022.StreamServerConfig{UserCipherConfig: must(ss2022.NewUserCipherConfig(psk, false)), UnsafeFallbackAddr: fallbackTarget}).NewStreamServer()
				front = probeFront{inner}
				clientSent = append(clientSent, fallbackProbe...)
			}
			rcfg := router.Config{DefaultTCPClientName: "stub"}
			if sp.Dial == "reject" {
				rcfg.DefaultTCPClientName = "reject"
			}
			var outgoing netio.StreamClient = stub
			proxyAddr := conn.AddrFromIPPort(netip.MustParseAddrPort("198.51.100.5:3128"))
			switch sp.Client {
			case "http":
				stub.transport = true
				outgoing = must((&httpproxy.ClientConfig{Name: "up", InnerClient: stub, Addr: proxyAddr}).NewProxyClient())
				upServer = must((&httpproxy.ServerConfig{}).NewProxyServer())
			case "socks5":
				stub.transport = true
				outgoing = (&socks5.StreamClientConfig{Name: "up", InnerClient: stub, Addr: proxyAddr}).NewStreamClient()
				upServer = must((&socks5.StreamServerConfig{EnableTCP: true}).NewStreamServer())
			case "ss2022":
				stub.transport = true
				upPSK := []byte("fedcba9876543210")
				outgoing = (&ss2022.StreamClientConfig{Name: "up", InnerClient: stub, Addr: proxyAddr, CipherConfig: must(ss2022.NewClientCipherConfig(upPSK, nil, false))}).NewStreamClient()
				upServer = (&ss2022.StreamServerConfig{UserCipherConfig: must(ss2022.NewUserCipherConfig(upPSK, false))}).NewStreamServer()
			}
			rt := must(rcfg.Router(zap.NewNop(), nil, nil, map[string]netio.StreamClient{"stub": outgoing}, nil, map[string]int{"s": 0}))
			relay := service.NewTCPRelay(0, "s", nil, server, col, rt, zap.NewNop())
			lnc := service.VerifTCPListener(sp.Wait, 0, 0)
			var g vsched.Group
			g.Go(func() {
				relay.VerifHandleConn(context.Background(), lnc, rEnd)
				relayDone = true
			})
			// target side
			g.Go(func() {
				vsched.PointIf(func() bool { return stub.haveConn || relayDone }, "target.accept")
				if !stub.haveConn {
					return
				}
				var t netio.Conn = stub.far
				if upServer != nil {
					// the upstream proxy: the real server of the outgoing client's protocol
					req, err := upServer.HandleStream(stub.far, zap.NewNop())
					if err != nil {
						targetErr = fmt.Errorf("upstream handshake: %w", err)
						stub.far.Close()
						return
					}
					upAddr, upPay, upSeen = req.Addr, append([]byte(nil), req.Payload...), true
					tc, err := req.Proceed()
					if err != nil {
						targetErr = fmt.Errorf("upstream proceed: %w", err)
						return
					}
					t = tc
				}
				readAll := func() {
					buf := make([]byte, 64)
					for {
						n, err := t.Read(buf)
						targetGot = append(targetGot, buf[:n]...)
						if err == io.EOF {
							targetEOF = true
							return
						}
						if err != nil {
							targetErr = err
							return
						}
					}
				}
				if sp.Order == "targetReset" {
					// read what has arrived so far (at least one read), reply, then abort the connection
					if len(stub.gotPay) == 0 { // otherwise the first bytes came with the dial
						buf := make([]byte, 64)
						n, _ := t.Read(buf)
						targetGot = append(targetGot, buf[:n]...)
					}
					targetSent = append(targetSent, "T-before-reset"...)
					t.Write([]byte("T-before-reset"))
					vsched.WaitIdle()
					stub.far.Reset()
					return
				}
				if sp.Order == "clientFirst" {
					readAll()
					targetEOFBeforeReply = targetEOF
					targetSent = append(targetSent, "T-reply-after-client-eof"...)
					if _, err := t.Write([]byte("T-reply-after-client-eof")); err != nil {
						targetErr = err
					}
					t.CloseWrite()
				} else {
					targetSent = append(targetSent, "T-first"...)
					if _, err := t.Write([]byte("T-first")); err != nil {
						targetErr = err
					}
					t.CloseWrite()
					readAll()
				}
				t.Close()
			})
			// client side
			g.Go(func() {
				var first []byte
				switch sp.Payload {
				case "early", "eofData", "eofDataSameRead":
					first = []byte("C0-initial")
				}
				if sp.Payload == "late" {
					// nothing with the request
				}
				c, err := front.DialStream(context.Background(), want, first)
				if err != nil {
					dialErrSeen = err
					cEnd.Close()
					return
				}
				clientSent = append(clientSent, first...)
				readAll := func() {
					buf := make([]byte, 64)
					for {
						n, err := c.Read(buf)
						clientGot = append(clientGot, buf[:n]...)
						if err == io.EOF {
							clientEOF = true
							return
						}
						if err != nil {
							clientErr = err
							return
						}
					}
				}
				write := func(s string) {
					if _, err := c.Write([]byte(s)); err != nil {
						clientErr = err
						return
					}
					clientSent = append(clientSent, s...)
				}
				if sp.Payload == "late" {
					vsched.Sleep(300 * time.Millisecond)
					write("C-late")
				}
				if sp.Order == "targetReset" {
					// keep the connection open while the target resets, then send more and finish
					buf := make([]byte, 64)
					for len(clientGot) < len("T-before-reset") {
						n, err := c.Read(buf)
						clientGot = append(clientGot, buf[:n]...)
						if err != nil {
							break
						}
					}
					// stay open for writing until the relay reports the end of the downlink
					write("C2-after-target-reply")
					readAll()
					c.CloseWrite()
					c.Close()
					return
				}
				if sp.Order == "clientFirst" || strings.HasPrefix(sp.Payload, "eof") {
					if !strings.HasPrefix(sp.Payload, "eof") {
						write("C1-more")
					}
					c.CloseWrite()
					readAll()
				} else {
					readAll()
					clientEOFBeforeReply = clientEOF
					write("C-reply-after-target-eof")
					c.CloseWrite()
				}
				c.Close()
			})
			g.Wait()
		}
		check := func(e *vsched.Exec) (string, string) {
			obs := fmt.Sprintf("up=%v/%q dialed=%d addr=%v pay=%v tgot=%q cgot=%q ceof=%v teof=%v dialErr=%v cerr=%v terr=%v stats=%v", upAddr, upPay, stub.dialed, stub.gotAddr, len(stub.gotPay), targetGot, clientGot, clientEOF, targetEOF, dialErrSeen, clientErr, targetErr, col.calls)
			if len(e.Panics) > 0 {
				return obs, "panic: " + e.Panics[0]
			}
			if e.Deadlock || e.HorizonHit {
				return obs, "deadlock or no termination: " + strings.Join(e.Blocked, " ")
			}
			if !relayDone {
				return obs, "relay handler did not return"
			}
			if sp.Dial == "reject" {
				if stub.dialed != 0 {
					return obs, "router rejection ignored: onward connection dialled"
				}
			} else {
				if stub.dialed != 1 {
					return obs, fmt.Sprintf("onward connection dialled %d times", stub.dialed)
				}
				if sp.Client == "" || sp.Client == "stub" {
					if stub.gotAddr.String() != want.String() {
						return obs, fmt.Sprintf("dialled %v, client asked for %v", stub.gotAddr, want)
					}
				} else if sp.Dial == "ok" {
					if !upSeen {
						return obs, fmt.Sprintf("the upstream proxy never received a valid request from the relay's %s client: %v", sp.Client, targetErr)
					}
					if upAddr.String() != want.String() {
						return obs, fmt.Sprintf("the upstream proxy was asked for %v, the client asked for %v", upAddr, want)
					}
				}
			}
			if sp.Dial != "ok" {
				// failure: nothing may be delivered; the client must see the failure
				if len(clientGot) != 0 && !(sp.Server == "tunnel") {
					return obs, "client received data although the onward connection failed"
				}
				proceeded := sp.Wait && sp.Native && sp.Dial != "reject" && (sp.Server != "ss2022" || sp.Payload == "none" || sp.Payload == "late" || sp.Payload == "eofNoData")
				switch sp.Server {
				case "socks5":
					var re socks5.ReplyError
					if !errors.As(dialErrSeen, &re) {
						if proceeded {
							break
						}
						return obs, fmt.Sprintf("SOCKS5 client did not get a failure reply: %v", dialErrSeen)
					}
					wantReply := map[string]byte{"refused": socks5.ReplyConnectionRefused, "reject": socks5.ReplyConnectionNotAllowedByRuleset, "unreachable": socks5.ReplyGeneralSocksServerFailure}[sp.Dial]
					if byte(re) != wantReply {
						return obs, fmt.Sprintf("SOCKS5 failure reply %#x, want %#x for %s", byte(re), wantReply, sp.Dial)
					}
				case "http":
					if dialErrSeen == nil && !proceeded {
						return obs, "HTTP CONNECT client saw success although the onward connection failed"
					}
				}
				if len(col.calls) != 0 {
					return obs, "statistics recorded for a connection that was never established"
				}
				return obs, ""
			}
			if dialErrSeen != nil {
				return obs, "client handshake failed although the onward connection succeeded: " + dialErrSeen.Error()
			}
			if sp.Order == "targetReset" {
				// the onward connection was aborted by the destination: the only demands are that the relay
				// ends, closes both connections, and charges exactly the bytes it delivered each way
				up := int64(len(stub.gotPay)) + stub.near.TotalWritten()
				down := rEnd.TotalWritten()
				if sp.Server == "ss2022" || sp.Server == "ss2022mu" || sp.Server == "http" || sp.Server == "socks5" {
					down = -1 // framing/handshake bytes are part of what the relay wrote to the client; checked via the client's view instead
				}
				if !bytes.HasPrefix(targetSent, clientGot) {
					return obs, "client received bytes the target never sent"
				}
				want := fmt.Sprintf("%s/%d/%d", wantUser, len(clientGot), up)
				if down >= 0 && down != int64(len(clientGot)) {
					want = fmt.Sprintf("%s/%d/%d", wantUser, down, up)
				}
				if len(col.calls) != 1 || col.calls[0] != want {
					return obs, fmt.Sprintf("statistics %v, bytes actually delivered before the destination reset the connection (user/down/up) %s", col.calls, want)
				}
				if !rEnd.IsClosed() || !stub.near.IsClosed() {
					return obs, "relay returned without closing both connections"
				}
				return obs, ""
			}
			// delivered bytes
			first := stub.gotPay
			if upServer != nil {
				first = upPay
			}
			all := append(append([]byte(nil), first...), targetGot...)
			if !bytes.Equal(all, clientSent) {
				if bytes.HasPrefix(clientSent, all) {
					return obs, "uplink bytes lost: the target received only a strict prefix of what the client sent"
				}
				return obs, "uplink bytes differ from what the client sent (duplicated, reordered or foreign)"
			}
			if !bytes.Equal(clientGot, targetSent) {
				if bytes.HasPrefix(targetSent, clientGot) {
					return obs, "downlink bytes lost: the client received only a strict prefix of what the target sent"
				}
				return obs, "downlink bytes differ from what the target sent"
			}
			if !clientEOF || !targetEOF {
				return obs, fmt.Sprintf("end-of-stream not mirrored: client saw EOF=%v, target saw EOF=%v", clientEOF, targetEOF)
			}
			if sp.Order == "clientFirst" && !targetEOFBeforeReply {
				return obs, "target did not see the client's end-of-stream while the reverse direction was still open"
			}
			if sp.Order == "targetFirst" && !strings.HasPrefix(sp.Payload, "eof") && !clientEOFBeforeReply {
				return obs, "client did not see the target's end-of-stream while the reverse direction was still open"
			}
			wantStats := fmt.Sprintf("%s/%d/%d", wantUser, len(targetSent), len(clientSent))
			if len(col.calls) != 1 || col.calls[0] != wantStats {
				return obs, fmt.Sprintf("statistics %v, bytes actually delivered (user/down/up) %s", col.calls, wantStats)
			}
			if !rEnd.IsClosed() || (stub.near != nil && !stub.near.IsClosed()) {
				return obs, "relay returned without closing both connections"
			}
			return obs, ""
		}
		return body, check
	}
}

// Family lists the scenario parameters of a tier.
func Family(thorough bool) []string {
	servers := []string{"tunnel", "socks5", "ss2022", "http", "ssnone"}
	var out []string
	for _, sv := range servers {
		for _, native := range []bool{false, true} {
			for _, wait := range []bool{false, true} {
				if wait && !native {
					continue // the wait only happens when the client has native support
				}
				if wait && sv == "ss2022" {
					// service.ServerConfig sets waitForInitialPayload = !serverNativeInitialPayload && !disabled,
					// and the SS2022 server has native initial payload: the service never waits in front of it.
					continue
				}
				for _, pay := range []string{"none", "early", "late", "eofData", "eofDataSameRead", "eofNoData"} {
					for _, order := range []string{"clientFirst", "targetFirst"} {
						if strings.HasPrefix(pay, "eof") && order == "targetFirst" {
							continue
						}
						if pay == "none" && order == "clientFirst" && !thorough && sv != "tunnel" {
							// covered by early/clientFirst except for the wait timer; keep for tunnel
						}
						out = append(out, Spec{sv, native, wait, pay, "ok", order, "ip", ""}.String())
					}
				}
				out = append(out, Spec{sv, native, wait, "early", "ok", "targetReset", "ip", ""}.String())
				for _, d := range []string{"refused", "unreachable", "reject"} {
					out = append(out, Spec{sv, native, wait, "early", d, "clientFirst", "ip", ""}.String())
					if wait {
						out = append(out, Spec{sv, native, wait, "none", d, "clientFirst", "ip", ""}.String())
					}
				}
			}
		}
		if sv != "tunnel" {
			out = append(out, Spec{sv, true, true, "early", "ok", "clientFirst", "domain", ""}.String())
		}
		// chained proxies: a real outgoing client talking to the real server of its protocol
		if sv == "tunnel" || sv == "socks5" || thorough {
			for _, cl := range []string{"http", "socks5", "ss2022"} {
				native := cl == "ss2022"
				for _, pay := range []string{"none", "early", "eofData"} {
					for _, order := range []string{"clientFirst", "targetFirst"} {
						if pay == "eofData" && order == "targetFirst" {
							continue
						}
						out = append(out, Spec{sv, native, native && sv != "ss2022", pay, "ok", order, "ip", cl}.String())
					}
				}
				out = append(out, Spec{sv, native, false, "early", "ok", "clientFirst", "domain", cl}.String())
			}
		}
	}
	// a multi-user SS2022 server: the session is charged to the user whose key opened it
	for _, pay := range []string{"none", "early"} {
		for _, order := range []string{"clientFirst", "targetFirst", "targetReset"} {
			if order == "targetReset" && pay == "none" {
				continue
			}
			out = append(out, Spec{"ss2022mu", true, false, pay, "ok", order, "ip", ""}.String())
		}
	}
	// an SS2022 server with unsafeFallbackAddress: a client that does not speak the protocol is connected to the
	// fallback destination with everything it sent, and relayed like any other connection
	for _, native := range []bool{false, true} {
		for _, pay := range []string{"none", "early"} {
			for _, order := range []string{"clientFirst", "targetFirst"} {
				out = append(out, Spec{"ss2022fb", native, false, pay, "ok", order, "ip", ""}.String())
			}
		}
		out = append(out, Spec{"ss2022fb", native, false, "early", "refused", "clientFirst", "ip", ""}.String())
	}
	sort.Strings(out)
	return out
}
