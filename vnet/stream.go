// Package vnet provides scheduler-aware in-memory connections: every blocking
// call is a scheduling point whose enabledness the scheduler computes, and
// deadlines run on the virtual clock.  It deliberately implements neither
// io.ReaderFrom nor io.WriterTo so that io.Copy takes the plain path.
package vnet

import (
	"errors"
	"io"
	"net"
	"net/netip"
	"os"
	"syscall"
	"time"

	"verif/vsched"
)

type half struct {
	buf     []byte
	cap     int
	wclosed bool // writer shut down its write side: reader sees EOF after draining
	rclosed bool // reader closed its read side: writes fail
	reset   bool // the stream was reset: reads and writes fail with ECONNRESET
	total   int64
}

// Conn is one end of an in-memory duplex stream (implements netio.Conn).
type Conn struct {
	Name        string
	in, out     *half
	peer        *Conn
	rdl, wdl    int64
	closed      bool
	Local, Peer net.Addr
	ReadChunk   int // when > 0, a Read returns at most this many bytes
	CloseWrites int
	Closes      int
	WriteErr    error // injected: every Write fails with this error
	EOFWithData bool  // a Read that drains the last bytes of a shut-down stream returns them together with io.EOF (as crypto/tls does)
}

// Pair returns the two ends of a stream whose per-direction buffer holds cap bytes.
func Pair(nameA, nameB string, cap int) (*Conn, *Conn) {
	ab := &half{cap: cap}
	ba := &half{cap: cap}
	a := &Conn{Name: nameA, in: ba, out: ab}
	b := &Conn{Name: nameB, in: ab, out: ba}
	a.peer, b.peer = b, a
	a.Local = net.TCPAddrFromAddrPort(netip.MustParseAddrPort("10.0.0.1:1001"))
	a.Peer = net.TCPAddrFromAddrPort(netip.MustParseAddrPort("10.0.0.2:2002"))
	b.Local, b.Peer = a.Peer, a.Local
	return a, b
}

func (c *Conn) LocalAddr() net.Addr  { return c.Local }
func (c *Conn) RemoteAddr() net.Addr { return c.Peer }

func passed(dl int64) bool { return dl != 0 && vsched.NowNS() >= dl }

func (c *Conn) Read(b []byte) (int, error) {
	vsched.PointIf(func() bool {
		return len(c.in.buf) > 0 || c.in.wclosed || c.closed || c.in.rclosed || passed(c.rdl) || c.in.reset
	}, c.Name+".Read")
	switch {
	case c.in.reset && !c.closed:
		return 0, &net.OpError{Op: "read", Net: "vnet", Err: syscall.ECONNRESET}
	case c.closed || c.in.rclosed:
		return 0, &net.OpError{Op: "read", Net: "vnet", Err: net.ErrClosed}
	case passed(c.rdl):
		return 0, &net.OpError{Op: "read", Net: "vnet", Err: os.ErrDeadlineExceeded}
	case len(c.in.buf) > 0:
		if len(b) == 0 {
			return 0, nil
		}
		lim := len(b)
		if c.ReadChunk > 0 && lim > c.ReadChunk {
			lim = c.ReadChunk
		}
		n := copy(b[:lim], c.in.buf)
		c.in.buf = c.in.buf[n:]
		if c.EOFWithData && len(c.in.buf) == 0 && c.in.wclosed {
			return n, io.EOF
		}
		return n, nil
	}
	return 0, io.EOF
}

func (c *Conn) Write(b []byte) (int, error) {
	n := 0
	for {
		vsched.PointIf(func() bool {
			return len(c.out.buf) < c.out.cap || c.closed || c.out.wclosed || c.out.rclosed || passed(c.wdl) || c.WriteErr != nil || c.out.reset
		}, c.Name+".Write")
		switch {
		case c.out.reset && !c.closed:
			return n, &net.OpError{Op: "write", Net: "vnet", Err: syscall.ECONNRESET}
		case c.WriteErr != nil:
			return n, &net.OpError{Op: "write", Net: "vnet", Err: c.WriteErr}
		case c.closed:
			return n, &net.OpError{Op: "write", Net: "vnet", Err: net.ErrClosed}
		case c.out.wclosed:
			return n, &net.OpError{Op: "write", Net: "vnet", Err: syscall.EPIPE}
		case c.out.rclosed:
			return n, &net.OpError{Op: "write", Net: "vnet", Err: syscall.ECONNRESET}
		case passed(c.wdl):
			return n, &net.OpError{Op: "write", Net: "vnet", Err: os.ErrDeadlineExceeded}
		}
		room := c.out.cap - len(c.out.buf)
		k := len(b) - n
		if k > room {
			k = room
		}
		c.out.buf = append(c.out.buf, b[n:n+k]...)
		c.out.total += int64(k)
		n += k
		if n == len(b) {
			return n, nil
		}
	}
}

// CloseWrite shuts down the write side: the peer reads EOF after draining.
func (c *Conn) CloseWrite() error {
	vsched.Point(c.Name + ".CloseWrite")
	if c.closed {
		return &net.OpError{Op: "close", Net: "vnet", Err: net.ErrClosed}
	}
	c.CloseWrites++
	c.out.wclosed = true
	return nil
}

// CloseRead shuts down the read side.
func (c *Conn) CloseRead() error {
	vsched.Point(c.Name + ".CloseRead")
	c.in.rclosed = true
	return nil
}

// Close closes both directions.
func (c *Conn) Close() error {
	vsched.Point(c.Name + ".Close")
	c.Closes++
	if c.closed {
		return &net.OpError{Op: "close", Net: "vnet", Err: net.ErrClosed}
	}
	c.closed = true
	c.out.wclosed = true
	c.in.rclosed = true
	return nil
}

func (c *Conn) setDL(p *int64, t time.Time) {
	if t.IsZero() {
		*p = 0
		return
	}
	*p = t.UnixNano()
	if *p <= 0 {
		*p = 1 // conn.ALongTimeAgo is time.Unix(0, 0); 0 means "no deadline" here
	}
	if d := t.Sub(vsched.Now()); d > 0 && vsched.On() {
		// let the clock reach the deadline so that a blocked call becomes enabled
		vsched.AddTimer(d, 0, func() {})
	}
}

func (c *Conn) SetDeadline(t time.Time) error {
	vsched.Point(c.Name + ".SetDeadline")
	if c.closed {
		return &net.OpError{Op: "set", Net: "vnet", Err: net.ErrClosed}
	}
	c.setDL(&c.rdl, t)
	c.setDL(&c.wdl, t)
	return nil
}

func (c *Conn) SetReadDeadline(t time.Time) error {
	vsched.Point(c.Name + ".SetReadDeadline")
	if c.closed {
		return &net.OpError{Op: "set", Net: "vnet", Err: net.ErrClosed}
	}
	c.setDL(&c.rdl, t)
	return nil
}

func (c *Conn) SetWriteDeadline(t time.Time) error {
	vsched.Point(c.Name + ".SetWriteDeadline")
	if c.closed {
		return &net.OpError{Op: "set", Net: "vnet", Err: net.ErrClosed}
	}
	c.setDL(&c.wdl, t)
	return nil
}

// Reset aborts the connection from this end: the peer's pending and future
// reads and writes fail with ECONNRESET and unread data is discarded.
func (c *Conn) Reset() {
	vsched.Point(c.Name + ".Reset")
	c.closed = true
	c.in.reset, c.out.reset = true, true
	c.in.buf, c.out.buf = nil, nil
}

// IsClosed reports whether Close was called on this end.
func (c *Conn) IsClosed() bool { return c.closed }

// WriteShut reports whether this end's write side is shut down (CloseWrite or Close).
func (c *Conn) WriteShut() bool { return c.out.wclosed }

// TotalWritten is the number of bytes this end has written.
func (c *Conn) TotalWritten() int64 { return c.out.total }

// ErrRefused is a connection-refused error for stub dialers.
var ErrRefused = &net.OpError{Op: "dial", Net: "tcp", Err: os.NewSyscallError("connect", syscall.ECONNREFUSED)}

// IsTimeout reports a deadline error.
func IsTimeout(err error) bool { return errors.Is(err, os.ErrDeadlineExceeded) }
