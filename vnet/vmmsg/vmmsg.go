// Package vmmsg wraps the repository's recvmmsg/sendmmsg connections the same
// way vudp wraps *net.UDPConn: the real batched syscalls run, but only once the
// scheduler has established that they cannot block.
package vmmsg

import (
	"net/netip"

	"github.com/database64128/shadowsocks-go/conn"

	"verif/vnet/vudp"
	"verif/vsched"
)

func MmsgR_ReadMsgs(c *conn.MmsgRConn, msgvec []conn.Mmsghdr, flags int) (int, error) {
	if !vsched.On() {
		return c.ReadMsgs(msgvec, flags)
	}
	if err := vudp.WaitReadable(c.UDPConn, "ReadMsgs"); err != nil {
		return 0, err
	}
	return c.ReadMsgs(msgvec, flags)
}

func MmsgW_WriteMsgs(c *conn.MmsgWConn, msgvec []conn.Mmsghdr, flags int) (int, error) {
	if !vsched.On() {
		return c.WriteMsgs(msgvec, flags)
	}
	if err := vudp.BeforeSend(c.UDPConn, "WriteMsgs"); err != nil {
		return 0, err
	}
	// one message per sendmmsg call, each followed by the delivery barrier (see vudp.SendBarrier); the result
	// is what one sendmmsg over the whole vector reports: the number sent, or the error if none was
	for i := range msgvec {
		var dest netip.AddrPort
		if h := &msgvec[i].Msghdr; h.Name != nil {
			dest, _ = conn.SockaddrToAddrPort(h.Name, h.Namelen)
		}
		var n int
		err := vudp.SendBarrier(c.UDPConn, dest, func() (e error) { n, e = c.WriteMsgs(msgvec[i:i+1], flags); return })
		if err != nil || n == 0 {
			if i == 0 {
				return 0, err
			}
			return i, nil
		}
	}
	return len(msgvec), nil
}
