// Package vmmsg wraps the repository's recvmmsg/sendmmsg connections the same
// way vudp wraps *net.UDPConn: the real batched syscalls run, but only once the
// scheduler has established that they cannot block.
package vmmsg

import (
	"github.com/database64128/shadowsocks-go/conn"

	"verif/vnet/vudp"
	"verif/vsched"
)

func MmsgR_ReadMsgs(c *conn.MmsgRConn, msgvec []conn.Mmsghdr, flags int) (int, error) {
	if !vsched.On() {
		return c.ReadMsgs(msgvec, flags)
	}
	if err := vudp.WaitReadable(c.UDPConn, "ReadMsgs"); err != nil {
		return 0, err
	}
	return c.ReadMsgs(msgvec, flags)
}

func MmsgW_WriteMsgs(c *conn.MmsgWConn, msgvec []conn.Mmsghdr, flags int) (int, error) {
	if !vsched.On() {
		return c.WriteMsgs(msgvec, flags)
	}
	if err := vudp.BeforeSend(c.UDPConn, "WriteMsgs"); err != nil {
		return 0, err
	}
	return c.WriteMsgs(msgvec, flags)
}
