package vudp

import "unsafe"

type pollFd struct {
	fd      int32
	events  int16
	revents int16
}

func ptr(p *pollFd) unsafe.Pointer { return unsafe.Pointer(p) }

func ptr32(p *uint32) unsafe.Pointer  { return unsafe.Pointer(p) }
func ptrLen(p *uint32) unsafe.Pointer { return unsafe.Pointer(p) }
