// Package vudp makes real loopback UDP sockets schedulable: the overlay routes
// every method call the repository makes on *net.UDPConn (and the resolver
// lookup) through these functions.  Under a controlled execution a blocking
// read is a scheduling point that is enabled only when the kernel already has
// a datagram queued (checked with poll), the virtual deadline has passed or the
// socket is closed; deadlines live on the virtual clock and the kernel
// deadline is never armed by the code under test.  The real recvmsg/sendmsg,
// socket options and control messages stay in the loop.
package vudp

import (
	"context"
	"errors"
	"fmt"
	"net"
	"net/netip"
	"os"
	"syscall"
	"time"

	"verif/vsched"
)

type state struct {
	c        *net.UDPConn
	fd       int
	rdl, wdl int64
	closed   bool
	name     string
	relay    bool // created by code under test (not by the harness)
}

type registry struct {
	m     map[*net.UDPConn]*state
	order []*state
}

type regKey struct{}

func reg() *registry {
	return vsched.Local(regKey{}, func() any {
		r := &registry{m: map[*net.UDPConn]*state{}}
		vsched.AtExit(func() {
			for _, s := range r.order {
				if !s.closed {
					s.closed = true
					s.c.Close()
				}
			}
		})
		return r
	}).(*registry)
}

// InjectSendErrors makes each send on a socket created by the code under test
// an environment choice: default = the real send, deviation = EPERM without
// sending (a realistic local firewall / route failure).
var InjectSendErrors bool

// harnessMark is set while the harness creates its own sockets.
var harnessMark bool

func st(c *net.UDPConn) *state {
	r := reg()
	s := r.m[c]
	if s != nil {
		return s
	}
	rc, err := c.SyscallConn()
	if err != nil {
		panic(err)
	}
	fd := -1
	rc.Control(func(f uintptr) { fd = int(f) })
	s = &state{c: c, fd: fd, name: fmt.Sprintf("udp%d", len(r.order)), relay: !harnessMark}
	r.m[c] = s
	r.order = append(r.order, s)
	return s
}

// Track registers a socket (called by the harness for its own sockets, and
// implicitly on first use for sockets of the code under test).
func Track(c *net.UDPConn, name string, harness bool) {
	harnessMark = harness
	s := st(c)
	harnessMark = false
	s.name = name
	s.relay = !harness
}

// Listen opens a harness-owned loopback socket.
func Listen(addr string, name string) *net.UDPConn {
	ua, err := net.ResolveUDPAddr("udp", addr)
	if err != nil {
		panic(err)
	}
	c, err := net.ListenUDP("udp", ua)
	if err != nil {
		panic(err)
	}
	if vsched.On() {
		Track(c, name, true)
	}
	return c
}

func readable(s *state) bool {
	var fds [1]pollFd
	fds[0] = pollFd{fd: int32(s.fd), events: 1 /*POLLIN*/}
	for {
		n, _, e := syscall.Syscall(syscall.SYS_POLL, uintptr(ptr(&fds[0])), 1, 0)
		if e == syscall.EINTR {
			continue
		}
		return e == 0 && n > 0 && fds[0].revents&1 != 0
	}
}

func passed(dl int64) bool { return dl != 0 && vsched.NowNS() >= dl }

func timeoutErr(op string) error {
	return &net.OpError{Op: op, Net: "udp", Err: os.ErrDeadlineExceeded}
}

func closedErr(op string) error {
	return &net.OpError{Op: op, Net: "udp", Err: net.ErrClosed}
}

// waitRead parks the caller until a read on s can complete and returns the
// error it must fail with, if any.
func waitRead(s *state, op string) error {
	vsched.PointIf(func() bool { return s.closed || passed(s.rdl) || readable(s) }, s.name+"."+op)
	switch {
	case s.closed:
		return closedErr("read")
	case passed(s.rdl):
		return timeoutErr("read")
	}
	// guard: the real call must not block
	s.c.SetReadDeadline(time.Now().Add(5 * time.Second))
	return nil
}

func UDP_ReadMsgUDPAddrPort(c *net.UDPConn, b, oob []byte) (n, oobn, flags int, addr netip.AddrPort, err error) {
	if !vsched.On() {
		return c.ReadMsgUDPAddrPort(b, oob)
	}
	s := st(c)
	if err = waitRead(s, "ReadMsg"); err != nil {
		return
	}
	n, oobn, flags, addr, err = c.ReadMsgUDPAddrPort(b, oob)
	if err != nil && errors.Is(err, os.ErrDeadlineExceeded) {
		panic("vudp: real read blocked although poll reported a datagram")
	}
	return
}

func UDP_ReadFromUDPAddrPort(c *net.UDPConn, b []byte) (n int, addr netip.AddrPort, err error) {
	if !vsched.On() {
		return c.ReadFromUDPAddrPort(b)
	}
	s := st(c)
	if err = waitRead(s, "ReadFrom"); err != nil {
		return
	}
	return c.ReadFromUDPAddrPort(b)
}

func UDP_Read(c *net.UDPConn, b []byte) (n int, err error) {
	if !vsched.On() {
		return c.Read(b)
	}
	s := st(c)
	if err = waitRead(s, "Read"); err != nil {
		return
	}
	return c.Read(b)
}

func beforeSend(s *state, op string) error {
	vsched.Point(s.name + "." + op)
	if s.closed {
		return closedErr("write")
	}
	if passed(s.wdl) {
		return timeoutErr("write")
	}
	if InjectSendErrors && s.relay && vsched.Choose(2) == 1 {
		return &net.OpError{Op: "write", Net: "udp", Err: os.NewSyscallError("sendmsg", syscall.EPERM)}
	}
	return nil
}

func UDP_WriteMsgUDPAddrPort(c *net.UDPConn, b, oob []byte, addr netip.AddrPort) (n, oobn int, err error) {
	if !vsched.On() {
		return c.WriteMsgUDPAddrPort(b, oob, addr)
	}
	if err = beforeSend(st(c), "WriteMsg"); err != nil {
		return
	}
	return c.WriteMsgUDPAddrPort(b, oob, addr)
}

func UDP_WriteToUDPAddrPort(c *net.UDPConn, b []byte, addr netip.AddrPort) (n int, err error) {
	if !vsched.On() {
		return c.WriteToUDPAddrPort(b, addr)
	}
	if err = beforeSend(st(c), "WriteTo"); err != nil {
		return
	}
	return c.WriteToUDPAddrPort(b, addr)
}

func UDP_Write(c *net.UDPConn, b []byte) (n int, err error) {
	if !vsched.On() {
		return c.Write(b)
	}
	if err = beforeSend(st(c), "Write"); err != nil {
		return
	}
	return c.Write(b)
}

func setDL(p *int64, t time.Time) {
	if t.IsZero() {
		*p = 0
		return
	}
	*p = t.UnixNano()
	if *p <= 0 {
		*p = 1 // conn.ALongTimeAgo is time.Unix(0, 0); 0 means "no deadline" here
	}
	if d := t.Sub(vsched.Now()); d > 0 {
		vsched.AddTimer(d, 0, func() {})
	}
}

func UDP_SetReadDeadline(c *net.UDPConn, t time.Time) error {
	if !vsched.On() {
		return c.SetReadDeadline(t)
	}
	s := st(c)
	vsched.Point(s.name + ".SetReadDeadline")
	if s.closed {
		return closedErr("set")
	}
	setDL(&s.rdl, t)
	return nil
}

func UDP_SetWriteDeadline(c *net.UDPConn, t time.Time) error {
	if !vsched.On() {
		return c.SetWriteDeadline(t)
	}
	s := st(c)
	vsched.Point(s.name + ".SetWriteDeadline")
	if s.closed {
		return closedErr("set")
	}
	setDL(&s.wdl, t)
	return nil
}

func UDP_SetDeadline(c *net.UDPConn, t time.Time) error {
	if !vsched.On() {
		return c.SetDeadline(t)
	}
	s := st(c)
	vsched.Point(s.name + ".SetDeadline")
	if s.closed {
		return closedErr("set")
	}
	setDL(&s.rdl, t)
	setDL(&s.wdl, t)
	return nil
}

func UDP_Close(c *net.UDPConn) error {
	if !vsched.On() {
		return c.Close()
	}
	s := st(c)
	vsched.Point(s.name + ".Close")
	if s.closed {
		return closedErr("close")
	}
	s.closed = true
	return c.Close()
}

// WaitReadable is used by the mmsg wrappers.
func WaitReadable(c *net.UDPConn, op string) error { return waitRead(st(c), op) }

// BeforeSend is used by the mmsg wrappers.
func BeforeSend(c *net.UDPConn, op string) error { return beforeSend(st(c), op) }

// Report describes the sockets of this execution.
type Report struct {
	Opened, RelayOpened int
	RelayLeaked         []string // sockets of the code under test still open
}

// Finish closes every socket still open and reports leaks of sockets created
// by the code under test.  Call at the end of a scenario body (outside any
// blocking operation).
func Finish() Report {
	var r Report
	if !vsched.On() {
		return r
	}
	g := reg()
	r.Opened = len(g.order)
	for _, s := range g.order {
		if s.relay {
			r.RelayOpened++
		}
		if !s.closed {
			if s.relay {
				r.RelayLeaked = append(r.RelayLeaked, s.name)
			}
			s.closed = true
			s.c.Close()
		}
	}
	return r
}

// OpenRelaySockets counts sockets of the code under test that are open now.
func OpenRelaySockets() int {
	n := 0
	for _, s := range reg().order {
		if s.relay && !s.closed {
			n++
		}
	}
	return n
}

// Hosts answers resolver lookups of the code under test.
var Hosts = map[string][]netip.Addr{}

// Resolver_LookupNetIP replaces (*net.Resolver).LookupNetIP: a scheduling
// point followed by the harness table's answer.
func Resolver_LookupNetIP(r *net.Resolver, ctx context.Context, network, host string) ([]netip.Addr, error) {
	if !vsched.On() && len(Hosts) == 0 {
		return r.LookupNetIP(ctx, network, host)
	}
	vsched.Point("resolve." + host)
	ips, ok := Hosts[host]
	if !ok || len(ips) == 0 {
		return nil, &net.DNSError{Err: "no such host", Name: host, IsNotFound: true}
	}
	var out []netip.Addr
	for _, ip := range ips {
		if network == "ip" || (network == "ip4" && ip.Is4()) || (network == "ip6" && ip.Is6() && !ip.Is4In6()) {
			out = append(out, ip)
		}
	}
	if len(out) == 0 {
		return nil, &net.DNSError{Err: "no such host", Name: host, IsNotFound: true}
	}
	return out, nil
}
