// Package vudp makes real loopback UDP sockets schedulable: the overlay routes
// every method call the repository makes on *net.UDPConn (and the resolver
// lookup) through these functions.  Under a controlled execution a blocking
// read is a scheduling point that is enabled only when the kernel already has
// a datagram queued (checked with poll), the virtual deadline has passed or the
// socket is closed; deadlines live on the virtual clock and the kernel
// deadline is never armed by the code under test.  The real recvmsg/sendmsg,
// socket options and control messages stay in the loop.
package vudp

import (
	"context"
	"errors"
	"fmt"
	"net"
	"net/netip"
	"os"
	"syscall"
	"time"

	"verif/vsched"
)

type state struct {
	c        *net.UDPConn
	fd       int
	rdl, wdl int64
	closed   bool
	name     string
	relay    bool // created by code under test (not by the harness)
	laddr    netip.AddrPort
	raddr    netip.AddrPort // valid for connected sockets
}

type registry struct {
	m     map[*net.UDPConn]*state
	order []*state
}

type regKey struct{}

func reg() *registry {
	return vsched.Local(regKey{}, func() any {
		r := &registry{m: map[*net.UDPConn]*state{}}
		vsched.AtExit(func() {
			for _, s := range r.order {
				if !s.closed {
					s.closed = true
					s.c.Close()
				}
			}
		})
		return r
	}).(*registry)
}

// InjectSendErrors makes each send on a socket created by the code under test
// an environment choice: default = the real send, deviation = EPERM without
// sending (a realistic local firewall / route failure).
var InjectSendErrors bool

// harnessMark is set while the harness creates its own sockets.
var harnessMark bool

func st(c *net.UDPConn) *state {
	r := reg()
	s := r.m[c]
	if s != nil {
		return s
	}
	rc, err := c.SyscallConn()
	if err != nil {
		panic(err)
	}
	fd := -1
	rc.Control(func(f uintptr) { fd = int(f) })
	s = &state{c: c, fd: fd, name: fmt.Sprintf("udp%d", len(r.order)), relay: !harnessMark}
	if a, ok := c.LocalAddr().(*net.UDPAddr); ok && a != nil {
		ap := a.AddrPort()
		s.laddr = netip.AddrPortFrom(ap.Addr().Unmap(), ap.Port())
	}
	if a, ok := c.RemoteAddr().(*net.UDPAddr); ok && a != nil {
		ap := a.AddrPort()
		s.raddr = netip.AddrPortFrom(ap.Addr().Unmap(), ap.Port())
	}
	r.m[c] = s
	r.order = append(r.order, s)
	return s
}

// Track registers a socket (called by the harness for its own sockets, and
// implicitly on first use for sockets of the code under test).
func Track(c *net.UDPConn, name string, harness bool) {
	harnessMark = harness
	s := st(c)
	harnessMark = false
	s.name = name
	s.relay = !harness
}

// Listen opens a harness-owned loopback socket.
func Listen(addr string, name string) *net.UDPConn {
	ua, err := net.ResolveUDPAddr("udp", addr)
	if err != nil {
		panic(err)
	}
	c, err := net.ListenUDP("udp", ua)
	if err != nil {
		panic(err)
	}
	if vsched.On() {
		Track(c, name, true)
	}
	return c
}

func readable(s *state) bool {
	var fds [1]pollFd
	fds[0] = pollFd{fd: int32(s.fd), events: 1 /*POLLIN*/}
	for {
		n, _, e := syscall.Syscall(syscall.SYS_POLL, uintptr(ptr(&fds[0])), 1, 0)
		if e == syscall.EINTR {
			continue
		}
		return e == 0 && n > 0 && fds[0].revents&1 != 0
	}
}

// Loopback delivery is asynchronous inside the kernel: sendmsg may return before the datagram sits in the
// receiver's queue (softirq deferred under load), and poll() on the receiver would then answer differently
// from one run of the same schedule to the next.  Every send through this package therefore ends with a
// barrier: if the destination is a socket of this execution, wait (real time, bounded) until its receive
// queue has grown.  Only one thread runs at a time, so nothing else can change that queue meanwhile.

// rmem returns the bytes allocated in the socket's receive queue (SO_MEMINFO / SK_MEMINFO_RMEM_ALLOC).
func rmem(s *state) uint32 {
	var info [16]uint32
	l := uint32(len(info) * 4)
	_, _, e := syscall.Syscall6(syscall.SYS_GETSOCKOPT, uintptr(s.fd), syscall.SOL_SOCKET, 55 /*SO_MEMINFO*/, uintptr(ptr32(&info[0])), uintptr(ptrLen(&l)), 0)
	if e != 0 {
		return 0
	}
	return info[0]
}

// BarrierTimeouts counts sends whose datagram did not show up at a tracked destination within the bound
// (dropped by the kernel for a reason the lookup below does not know); diagnostics only.
var BarrierTimeouts int

func findDest(from *state, dest netip.AddrPort) *state {
	dest = netip.AddrPortFrom(dest.Addr().Unmap(), dest.Port())
	var wild *state
	for _, d := range reg().order {
		if d.closed || d.laddr.Port() != dest.Port() {
			continue
		}
		if d.raddr.IsValid() && d.raddr != from.laddr {
			continue // a connected socket only receives from its peer
		}
		if d.laddr.Addr() == dest.Addr() {
			return d
		}
		if d.laddr.Addr().IsUnspecified() {
			wild = d
		}
	}
	return wild
}

// SendBarrier runs send and, when it succeeded and dest is a socket of this execution, waits until the
// datagram is in that socket's receive queue.
func SendBarrier(c *net.UDPConn, dest netip.AddrPort, send func() error) error {
	from := st(c)
	if !dest.IsValid() {
		dest = from.raddr
	}
	var d *state
	var before uint32
	if dest.IsValid() {
		if d = findDest(from, dest); d != nil {
			before = rmem(d)
		}
	}
	if err := send(); err != nil || d == nil {
		return err
	}
	deadline := time.Now().Add(time.Second)
	for i := 0; rmem(d) <= before; i++ {
		if time.Now().After(deadline) {
			BarrierTimeouts++
			break
		}
		if i > 100 {
			time.Sleep(20 * time.Microsecond)
		}
	}
	return nil
}

func passed(dl int64) bool { return dl != 0 && vsched.NowNS() >= dl }

func timeoutErr(op string) error {
	return &net.OpError{Op: op, Net: "udp", Err: os.ErrDeadlineExceeded}
}

func closedErr(op string) error {
	return &net.OpError{Op: op, Net: "udp", Err: net.ErrClosed}
}

// waitRead parks the caller until a read on s can complete and returns the
// error it must fail with, if any.
func waitRead(s *state, op string) error {
	vsched.PointIf(func() bool { return s.closed || passed(s.rdl) || readable(s) }, s.name+"."+op)
	switch {
	case s.closed:
		return closedErr("read")
	case passed(s.rdl):
		return timeoutErr("read")
	}
	// guard: the real call must not block
	s.c.SetReadDeadline(time.Now().Add(5 * time.Second))
	return nil
}

func UDP_ReadMsgUDPAddrPort(c *net.UDPConn, b, oob []byte) (n, oobn, flags int, addr netip.AddrPort, err error) {
	if !vsched.On() {
		return c.ReadMsgUDPAddrPort(b, oob)
	}
	s := st(c)
	if err = waitRead(s, "ReadMsg"); err != nil {
		return
	}
	n, oobn, flags, addr, err = c.ReadMsgUDPAddrPort(b, oob)
	if err != nil && errors.Is(err, os.ErrDeadlineExceeded) {
		panic("vudp: real read blocked although poll reported a datagram")
	}
	return
}

func UDP_ReadFromUDPAddrPort(c *net.UDPConn, b []byte) (n int, addr netip.AddrPort, err error) {
	if !vsched.On() {
		return c.ReadFromUDPAddrPort(b)
	}
	s := st(c)
	if err = waitRead(s, "ReadFrom"); err != nil {
		return
	}
	return c.ReadFromUDPAddrPort(b)
}

func UDP_Read(c *net.UDPConn, b []byte) (n int, err error) {
	if !vsched.On() {
		return c.Read(b)
	}
	s := st(c)
	if err = waitRead(s, "Read"); err != nil {
		return
	}
	return c.Read(b)
}

func beforeSend(s *state, op string) error {
	vsched.Point(s.name + "." + op)
	if s.closed {
		return closedErr("write")
	}
	if passed(s.wdl) {
		return timeoutErr("write")
	}
	if InjectSendErrors && s.relay && vsched.Choose(2) == 1 {
		return &net.OpError{Op: "write", Net: "udp", Err: os.NewSyscallError("sendmsg", syscall.EPERM)}
	}
	return nil
}

func UDP_WriteMsgUDPAddrPort(c *net.UDPConn, b, oob []byte, addr netip.AddrPort) (n, oobn int, err error) {
	if !vsched.On() {
		return c.WriteMsgUDPAddrPort(b, oob, addr)
	}
	if err = beforeSend(st(c), "WriteMsg"); err != nil {
		return
	}
	err = SendBarrier(c, addr, func() (e error) { n, oobn, e = c.WriteMsgUDPAddrPort(b, oob, addr); return })
	return
}

func UDP_WriteToUDPAddrPort(c *net.UDPConn, b []byte, addr netip.AddrPort) (n int, err error) {
	if !vsched.On() {
		return c.WriteToUDPAddrPort(b, addr)
	}
	if err = beforeSend(st(c), "WriteTo"); err != nil {
		return
	}
	err = SendBarrier(c, addr, func() (e error) { n, e = c.WriteToUDPAddrPort(b, addr); return })
	return
}

func UDP_Write(c *net.UDPConn, b []byte) (n int, err error) {
	if !vsched.On() {
		return c.Write(b)
	}
	if err = beforeSend(st(c), "Write"); err != nil {
		return
	}
	err = SendBarrier(c, netip.AddrPort{}, func() (e error) { n, e = c.Write(b); return })
	return
}

func setDL(p *int64, t time.Time) {
	if t.IsZero() {
		*p = 0
		return
	}
	*p = t.UnixNano()
	if *p <= 0 {
		*p = 1 // conn.ALongTimeAgo is time.Unix(0, 0); 0 means "no deadline" here
	}
	if d := t.Sub(vsched.Now()); d > 0 {
		vsched.AddTimer(d, 0, func() {})
	}
}

func UDP_SetReadDeadline(c *net.UDPConn, t time.Time) error {
	if !vsched.On() {
		return c.SetReadDeadline(t)
	}
	s := st(c)
	vsched.Point(s.name + ".SetReadDeadline")
	if s.closed {
		return closedErr("set")
	}
	setDL(&s.rdl, t)
	return nil
}

func UDP_SetWriteDeadline(c *net.UDPConn, t time.Time) error {
	if !vsched.On() {
		return c.SetWriteDeadline(t)
	}
	s := st(c)
	vsched.Point(s.name + ".SetWriteDeadline")
	if s.closed {
		return closedErr("set")
	}
	setDL(&s.wdl, t)
	return nil
}

func UDP_SetDeadline(c *net.UDPConn, t time.Time) error {
	if !vsched.On() {
		return c.SetDeadline(t)
	}
	s := st(c)
	vsched.Point(s.name + ".SetDeadline")
	if s.closed {
		return closedErr("set")
	}
	setDL(&s.rdl, t)
	setDL(&s.wdl, t)
	return nil
}

func UDP_Close(c *net.UDPConn) error {
	if !vsched.On() {
		return c.Close()
	}
	s := st(c)
	vsched.Point(s.name + ".Close")
	if s.closed {
		return closedErr("close")
	}
	s.closed = true
	return c.Close()
}

// WaitReadable is used by the mmsg wrappers.
func WaitReadable(c *net.UDPConn, op string) error { return waitRead(st(c), op) }

// BeforeSend is used by the mmsg wrappers.
func BeforeSend(c *net.UDPConn, op string) error { return beforeSend(st(c), op) }

// Report describes the sockets of this execution.
type Report struct {
	Opened, RelayOpened int
	RelayLeaked         []string // sockets of the code under test still open
}

// Finish closes every socket still open and reports leaks of sockets created
// by the code under test.  Call at the end of a scenario body (outside any
// blocking operation).
func Finish() Report {
	var r Report
	if !vsched.On() {
		return r
	}
	g := reg()
	r.Opened = len(g.order)
	for _, s := range g.order {
		if s.relay {
			r.RelayOpened++
		}
		if !s.closed {
			if s.relay {
				r.RelayLeaked = append(r.RelayLeaked, s.name)
			}
			s.closed = true
			s.c.Close()
		}
	}
	return r
}

// OpenRelaySockets counts sockets of the code under test that are open now.
func OpenRelaySockets() int {
	n := 0
	for _, s := range reg().order {
		if s.relay && !s.closed {
			n++
		}
	}
	return n
}

// Hosts answers resolver lookups of the code under test.
var Hosts = map[string][]netip.Addr{}

// Resolver_LookupNetIP replaces (*net.Resolver).LookupNetIP: a scheduling
// point followed by the harness table's answer.
func Resolver_LookupNetIP(r *net.Resolver, ctx context.Context, network, host string) ([]netip.Addr, error) {
	if !vsched.On() && len(Hosts) == 0 {
		return r.LookupNetIP(ctx, network, host)
	}
	vsched.Point("resolve." + host)
	ips, ok := Hosts[host]
	if !ok || len(ips) == 0 {
		return nil, &net.DNSError{Err: "no such host", Name: host, IsNotFound: true}
	}
	var out []netip.Addr
	for _, ip := range ips {
		if network == "ip" || (network == "ip4" && ip.Is4()) || (network == "ip6" && ip.Is6() && !ip.Is4In6()) {
			out = append(out, ip)
		}
	}
	if len(out) == 0 {
		return nil, &net.DNSError{Err: "no such host", Name: host, IsNotFound: true}
	}
	return out, nil
}
