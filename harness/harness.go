// Package harness is the common frame of every check: tiers, evidence files,
// known findings, violation replay files, and process sharding of explorations.
package harness

import (
	"bufio"
	"crypto/sha256"
	"encoding/hex"
	"encoding/json"
	"flag"
	"fmt"
	"os"
	"os/exec"
	"path/filepath"
	"runtime"
	"sort"
	"strconv"
	"strings"
	"sync"
	"time"

	"verif/vsched"
)

const Root = "/verif"

// Finding is one entry of known_findings.jsonl.
type Finding struct {
	Property  string `json:"property"`
	Signature string `json:"signature"`
	What      string `json:"what"`
	Status    string `json:"status"` // known | fixed
	Commit    string `json:"commit,omitempty"`
}

// Check accumulates what one run of one property's check covered.
type Check struct {
	ID    string
	Tier  string
	Seed  int64
	Level string
	start time.Time

	mu          sync.Mutex
	Evaluations int64
	States      int64
	Transitions int64
	Traces      int64
	distinct    map[string]struct{}
	distinctCap int
	DistinctN   int64
	Rule        string
	samples     []any
	Exhaustive  bool
	caps        []string
	Assumptions []string
	Extra       map[string]any
	violations  []viol
	// executions thrown away and re-run because their prefix did not replay (kernel-level nondeterminism)
	replayRetries int64
	known         []Finding
	knownSeen     map[string]bool
	Replay        string
	// SigOf, when set, maps an exploration violation to its known-findings signature.
	SigOf    func(scenario, param, msg string) string
	Deadline time.Time
	parts    []map[string]any
}

type viol struct {
	Sig, What string
	Replay    any
}

var (
	flagTier         = flag.String("tier", "", "quick|thorough")
	flagReplay       = flag.String("replay", "", "replay file")
	flagWorker       = flag.String("worker", "", "internal: scenario to explore as a shard worker")
	flagShard        = flag.String("shard", "", "internal: i/n")
	flagBound        = flag.Int("bound", 0, "internal: deviation bound")
	flagParam        = flag.String("param", "", "internal: scenario parameter")
	flagBudget       = flag.Duration("budget", 0, "internal: time budget")
	flagDelay        = flag.Bool("delay", false, "internal: delay bounding")
	flagNoEarlyClock = flag.Bool("noearlyclock", false, "internal: timers fire only at quiescence")
)

// Start parses flags and the environment.
func Start(id string) *Check {
	if !flag.Parsed() {
		flag.Parse()
	}
	c := &Check{ID: id, Level: "model_checking", start: time.Now(), distinct: map[string]struct{}{}, distinctCap: 2_000_000, Exhaustive: true, Extra: map[string]any{}, knownSeen: map[string]bool{}}
	c.Tier = *flagTier
	if c.Tier == "" {
		c.Tier = os.Getenv("VERIF_TIER")
	}
	if c.Tier != "thorough" {
		c.Tier = "quick"
	}
	c.Seed, _ = strconv.ParseInt(os.Getenv("VERIF_SEED"), 10, 64)
	c.Replay = *flagReplay
	c.loadKnown()
	return c
}

// Thorough reports the tier.
func (c *Check) Thorough() bool { return c.Tier == "thorough" }

// Pick returns q in the quick tier and t in the thorough tier.
func Pick[T any](c *Check, q, t T) T {
	if c.Thorough() {
		return t
	}
	return q
}

// loadKnown reads /verif/known_findings.txt.  Lines:
//
//	known: property=<id> <signature> :: <what fails>
//	fixed: property=<id> <commit> <what failed>
//
// Only "known" lines suppress (and are echoed as KNOWN-FINDING); "fixed" lines
// are documentation and suppress nothing.  The file is never written at run time.
func (c *Check) loadKnown() {
	f, err := os.Open(filepath.Join(Root, "known_findings.txt"))
	if err != nil {
		return
	}
	defer f.Close()
	sc := bufio.NewScanner(f)
	sc.Buffer(make([]byte, 1<<20), 1<<20)
	for sc.Scan() {
		line := strings.TrimSpace(sc.Text())
		rest, ok := strings.CutPrefix(line, "known: property="+c.ID+" ")
		if !ok {
			continue
		}
		sig, what, _ := strings.Cut(rest, " :: ")
		c.known = append(c.known, Finding{Property: c.ID, Signature: strings.TrimSpace(sig), What: strings.TrimSpace(what), Status: "known"})
	}
}

// Distinct records a case key for distinct counting; nontrivial says whether it
// counts towards distinct_nontrivial.
func (c *Check) Distinct(key string, nontrivial bool) {
	c.mu.Lock()
	defer c.mu.Unlock()
	if !nontrivial {
		return
	}
	if len(c.distinct) >= c.distinctCap {
		return
	}
	h := sha256.Sum256([]byte(key))
	k := string(h[:12])
	if _, ok := c.distinct[k]; !ok {
		c.distinct[k] = struct{}{}
	}
}

// Sample keeps up to 12 written-out cases.
func (c *Check) Sample(v any) {
	c.mu.Lock()
	defer c.mu.Unlock()
	if len(c.samples) < 12 {
		c.samples = append(c.samples, v)
	}
}

// Cap notes that a budget stopped part of the run early.
func (c *Check) Cap(reason string) {
	c.mu.Lock()
	defer c.mu.Unlock()
	c.Exhaustive = false
	c.caps = append(c.caps, reason)
}

// Count adds to the evaluation counters.
func (c *Check) Count(evals, states, transitions int64) {
	c.mu.Lock()
	c.Evaluations += evals
	c.States += states
	c.Transitions += transitions
	c.Traces += evals
	c.mu.Unlock()
}

// Violation records a failed oracle.  sig identifies the failing input /
// history / schedule shape; it is matched against known_findings.jsonl.
func (c *Check) Violation(sig, what string, replay any) {
	c.mu.Lock()
	defer c.mu.Unlock()
	for _, k := range c.known {
		if k.Status == "known" && k.Signature == sig {
			c.knownSeen[sig] = true
			return
		}
	}
	for _, v := range c.violations {
		if v.Sig == sig {
			return
		}
	}
	if len(c.violations) < 50 {
		c.violations = append(c.violations, viol{sig, what, replay})
	}
}

// Violations returns how many unlisted violations were recorded.
func (c *Check) Violations() int { return len(c.violations) }

// Part records a named sub-result in the evidence.
func (c *Check) Part(name string, m map[string]any) {
	c.mu.Lock()
	defer c.mu.Unlock()
	m["part"] = name
	c.parts = append(c.parts, m)
}

// Finish writes evidence, prints verdict lines and exits.
func (c *Check) Finish() {
	os.MkdirAll(filepath.Join(Root, "evidence"), 0o755)
	os.MkdirAll(filepath.Join(Root, "replays"), 0o755)
	exit := 0
	var knownLines []string
	for _, k := range c.known {
		if k.Status == "known" && c.knownSeen[k.Signature] {
			knownLines = append(knownLines, fmt.Sprintf("KNOWN-FINDING: property=%s %s [%s]", c.ID, k.What, k.Signature))
		}
	}
	sort.Strings(knownLines)
	for _, l := range knownLines {
		fmt.Println(l)
	}
	var vrecs []map[string]any
	for _, v := range c.violations {
		h := sha256.Sum256([]byte(v.Sig))
		path := filepath.Join(Root, "replays", c.ID+"-"+hex.EncodeToString(h[:6])+".json")
		rec := map[string]any{"property": c.ID, "signature": v.Sig, "what": v.What, "replay": v.Replay}
		b, _ := json.MarshalIndent(rec, "", " ")
		os.WriteFile(path, b, 0o644)
		fmt.Printf("VIOLATION property=%s replay=%s\n  signature: %s\n  %s\n", c.ID, path, v.Sig, v.What)
		vrecs = append(vrecs, map[string]any{"signature": v.Sig, "what": v.What, "replay": path})
		exit = 1
	}
	if len(c.samples) == 0 {
		c.samples = append(c.samples, "no sample recorded")
	}
	cov := map[string]any{
		"evaluations":                   c.Evaluations,
		"distinct_nontrivial":           int64(len(c.distinct)),
		"rule":                          c.Rule,
		"samples":                       c.samples,
		"states":                        max(c.States, 1),
		"transitions":                   max(c.Transitions, 1),
		"traces_validated_against_impl": c.Traces,
		"exhaustive":                    c.Exhaustive,
		"caps":                          c.caps,
		"parts":                         c.parts,
		"known_findings_seen":           knownLines,
		"violation_records":             vrecs,
	}
	if c.States == 0 {
		cov["states"] = max(int64(len(c.distinct)), 1)
	}
	for k, v := range c.Extra {
		cov[k] = v
	}
	if c.replayRetries > 0 {
		cov["replay_divergences_retried"] = c.replayRetries
	}
	ev := map[string]any{
		"property_id": c.ID,
		"tier":        c.Tier,
		"seed":        c.Seed,
		"level":       c.Level,
		"coverage":    cov,
		"assumptions": c.Assumptions,
		"wall_s":      time.Since(c.start).Seconds(),
		"violations":  len(c.violations),
	}
	b, _ := json.MarshalIndent(ev, "", " ")
	if err := os.WriteFile(filepath.Join(Root, "evidence", c.ID+".json"), b, 0o644); err != nil {
		fmt.Fprintln(os.Stderr, "harness: cannot write evidence:", err)
		exitNow(2)
	}
	fmt.Printf("%s tier=%s evaluations=%d states=%v transitions=%v distinct=%d exhaustive=%v violations=%d known=%d wall=%.1fs\n",
		c.ID, c.Tier, c.Evaluations, cov["states"], cov["transitions"], len(c.distinct), c.Exhaustive, len(c.violations), len(knownLines), time.Since(c.start).Seconds())
	exitNow(exit)
}

// Fatal reports a harness error (never a verdict) and exits 2.
func Fatal(format string, a ...any) {
	fmt.Fprintf(os.Stderr, "HARNESS-ERROR: "+format+"\n", a...)
	exitNow(2)
}

var cleanups []func()

// OnExit registers f to run before the harness exits the process (Finish, Fatal, worker exit): deferred
// calls in main do not run across os.Exit, so scratch directories are removed through this.
func OnExit(f func()) { cleanups = append(cleanups, f) }

// TempDir makes a scratch directory that is removed when the harness exits.
func TempDir(prefix string) string {
	d, err := os.MkdirTemp("", prefix)
	if err != nil {
		Fatal("cannot make a scratch directory: %v", err)
	}
	OnExit(func() { os.RemoveAll(d) })
	return d
}

func exitNow(code int) {
	for i := len(cleanups) - 1; i >= 0; i-- {
		cleanups[i]()
	}
	os.Exit(code)
}

// ---------------------------------------------------------------------------
// Sharded exploration of vsched scenarios.

// ScenarioFn builds a scenario from a parameter string.
type ScenarioFn func(param string) vsched.Scenario

var scenarios = map[string]ScenarioFn{}

// Register makes a scenario available to shard workers; call before Start.
func Register(name string, fn ScenarioFn) { scenarios[name] = fn }

// WorkerMain runs a shard worker if this process was started as one.  Call it
// first in main, after Register.
func WorkerMain() {
	if !flag.Parsed() {
		flag.Parse()
	}
	if *flagWorker == "" {
		return
	}
	runtime.GOMAXPROCS(1)
	fn := scenarios[*flagWorker]
	if fn == nil {
		Fatal("unknown scenario %q", *flagWorker)
	}
	var i, n int
	fmt.Sscanf(*flagShard, "%d/%d", &i, &n)
	var deadline time.Time
	if *flagBudget > 0 {
		deadline = time.Now().Add(*flagBudget)
	}
	// iterative deviation bounding: complete bound 0, then 1, ... up to the
	// requested bound; report the highest bound completed within the budget.
	var st *vsched.Stats
	completed := -1
	var viols []vsched.Violation
	for b := 0; b <= *flagBound; b++ {
		opts := vsched.Options{Bound: b, ShardIndex: i, ShardCount: n, ShardDepth: 1, Deadline: deadline, DelayBounded: *flagDelay, NoEarlyClock: *flagNoEarlyClock || NoEarlyClock}
		cur := vsched.Explore(fn(*flagParam), opts)
		viols = append(viols, cur.Violations...)
		st = cur
		if !cur.Exhaustive {
			break
		}
		completed = b
		if len(cur.Violations) > 0 {
			break
		}
	}
	st.Violations = viols
	st.BoundCompleted = completed
	st.Bounding = "preemption"
	if *flagDelay {
		st.Bounding = "delay"
	}
	if len(st.Violations) > 20 {
		st.Violations = st.Violations[:20]
	}
	b, _ := json.Marshal(st)
	os.Stdout.Write(b)
	exitNow(0)
}

// NoEarlyClock, set by a check before exploring, makes timers fire only at quiescence.
var NoEarlyClock bool

// Workers is the number of shard processes.
func Workers() int {
	n := runtime.NumCPU()
	if v, err := strconv.Atoi(os.Getenv("VERIF_WORKERS")); err == nil && v > 0 {
		n = v
	}
	return n
}

// BatchResult is one scenario's statistics from ExploreBatch.
type BatchResult struct {
	Param string
	Stats *vsched.Stats
}

// ExploreBatch explores many parameterisations of a registered scenario, one
// worker process per parameterisation, Workers() at a time.
func ExploreBatch(name string, params []string, bound int, budget time.Duration, delay bool) []BatchResult {
	// one-off deeper sweeps: VERIF_DEEP_BOUND=<n> adds n to every deviation bound, VERIF_DEEP_BUDGET=<k>
	// multiplies every per-scenario time budget (the registered commands never set these)
	if n, err := strconv.Atoi(os.Getenv("VERIF_DEEP_BOUND")); err == nil && n > 0 {
		bound += n
	}
	if k, err := strconv.Atoi(os.Getenv("VERIF_DEEP_BUDGET")); err == nil && k > 0 {
		budget *= time.Duration(k)
	}
	out := make([]BatchResult, len(params))
	sem := make(chan struct{}, Workers())
	var wg sync.WaitGroup
	for i, p := range params {
		wg.Add(1)
		sem <- struct{}{}
		go func(i int, p string) {
			defer wg.Done()
			defer func() { <-sem }()
			args := []string{"--worker", name, "--shard", "0/1", "--bound", strconv.Itoa(bound), "--param", p}
			if budget > 0 {
				args = append(args, "--budget", budget.String())
			}
			if delay {
				args = append(args, "--delay")
			}
			if NoEarlyClock {
				args = append(args, "--noearlyclock")
			}
			cmd := exec.Command(os.Args[0], args...)
			cmd.Stderr = os.Stderr
			o, err := cmd.Output()
			if err != nil {
				Fatal("worker for %s(%s) failed: %v\n%s", name, p, err, tail(string(o), 2000))
			}
			var st vsched.Stats
			if err := json.Unmarshal(o, &st); err != nil {
				Fatal("worker for %s(%s): bad output: %v", name, p, err)
			}
			out[i] = BatchResult{p, &st}
		}(i, p)
	}
	wg.Wait()
	return out
}

// ExploreSharded explores a registered scenario over all cores and merges the
// shard statistics.
func ExploreSharded(name, param string, bound int, budget time.Duration, delay bool) *vsched.Stats {
	n := Workers()
	type res struct {
		st  *vsched.Stats
		err error
		out string
	}
	results := make([]res, n)
	var wg sync.WaitGroup
	for i := 0; i < n; i++ {
		wg.Add(1)
		go func(i int) {
			defer wg.Done()
			args := []string{"--worker", name, "--shard", fmt.Sprintf("%d/%d", i, n), "--bound", strconv.Itoa(bound), "--param", param}
			if budget > 0 {
				args = append(args, "--budget", budget.String())
			}
			if delay {
				args = append(args, "--delay")
			}
			if NoEarlyClock {
				args = append(args, "--noearlyclock")
			}
			cmd := exec.Command(os.Args[0], args...)
			cmd.Stderr = os.Stderr
			out, err := cmd.Output()
			if err != nil {
				results[i] = res{err: err, out: string(out)}
				return
			}
			var st vsched.Stats
			if err := json.Unmarshal(out, &st); err != nil {
				results[i] = res{err: err, out: string(out)}
				return
			}
			results[i] = res{st: &st}
		}(i)
	}
	wg.Wait()
	total := &vsched.Stats{Exhaustive: true, Bound: bound, Observations: map[string]int64{}, ByDeviation: map[int]int64{}}
	for i, r := range results {
		if r.err != nil {
			Fatal("shard %d of %s(%s) failed: %v\n%s", i, name, param, r.err, tail(r.out, 2000))
		}
		s := r.st
		total.Execs += s.Execs
		total.Steps += s.Steps
		total.ChoicePoints += s.ChoicePoints
		total.Deadlocks += s.Deadlocks
		total.Horizons += s.Horizons
		total.PanicExecs += s.PanicExecs
		total.Bounding = s.Bounding
		if i == 0 || s.BoundCompleted < total.BoundCompleted {
			total.BoundCompleted = s.BoundCompleted
		}
		if s.MaxChoices > total.MaxChoices {
			total.MaxChoices = s.MaxChoices
		}
		if !s.Exhaustive {
			total.Exhaustive = false
			total.CapReason = s.CapReason
		}
		for k, v := range s.Observations {
			total.Observations[k] += v
		}
		for k, v := range s.ByDeviation {
			total.ByDeviation[k] += v
		}
		total.Violations = append(total.Violations, s.Violations...)
	}
	return total
}

func tail(s string, n int) string {
	if len(s) > n {
		return s[len(s)-n:]
	}
	return s
}

// AddExploration folds exploration statistics into the evidence counters and
// turns (confirmed) oracle failures into violations.  sigOf maps a violation to
// its signature (defaults to scenario name + observation).
func (c *Check) AddExploration(name, param string, st *vsched.Stats, confirm func(v vsched.Violation) bool) {
	c.mu.Lock()
	c.Evaluations += st.Execs
	c.Traces += st.Execs
	c.Transitions += st.Steps
	c.States += int64(len(st.Observations))
	c.mu.Unlock()
	for k := range st.Observations {
		c.Distinct(name+"|"+param+"|"+k, true)
	}
	if !st.Exhaustive {
		c.Cap(fmt.Sprintf("%s(%s): %s while exploring bound %d; bound %d completed", name, param, st.CapReason, st.Bound, st.BoundCompleted))
	}
	if st.ReplayRetries > 0 {
		c.mu.Lock()
		c.replayRetries += st.ReplayRetries
		c.mu.Unlock()
	}
	c.Part(name+"("+param+")", map[string]any{
		"executions": st.Execs, "scheduling_steps": st.Steps, "choice_points": st.ChoicePoints, "deviation_bound_completed": st.BoundCompleted, "deviation_bound_attempted": st.Bound, "bounding": st.Bounding,
		"distinct_observations": len(st.Observations), "deadlocks": st.Deadlocks, "horizon_hits": st.Horizons, "panic_executions": st.PanicExecs,
		"max_choice_depth": st.MaxChoices, "exhaustive_within_bound": st.Exhaustive, "executions_by_deviations": st.ByDeviation,
	})
	seen := map[string]bool{}
	for _, v := range st.Violations {
		sig := name + "(" + param + "): " + v.Msg
		if c.SigOf != nil {
			sig = c.SigOf(name, param, v.Msg)
		}
		if seen[sig] {
			continue
		}
		seen[sig] = true
		if confirm != nil && !confirm(v) {
			Fatal("violation of %s(%s) did not reproduce identically on replay (nondeterminism in the harness): %s choices=%v", name, param, v.Msg, v.Choices)
		}
		c.Violation(sig, v.Msg, map[string]any{"scenario": name, "param": param, "choices": v.Choices, "ns": v.Ns, "observation": v.Obs})
	}
}

// Confirm re-runs a violation five times and requires identical observations.
func Confirm(sc vsched.Scenario) func(v vsched.Violation) bool {
	return func(v vsched.Violation) bool {
		for i := 0; i < 5; i++ {
			_, obs, msg := vsched.RunOnce(sc, v.Choices, v.Ns, 0, false)
			if msg != v.Msg || obs != v.Obs {
				fmt.Fprintf(os.Stderr, "replay %d: got obs=%q msg=%q want obs=%q msg=%q\n", i, obs, msg, v.Obs, v.Msg)
				return false
			}
		}
		return true
	}
}

// ReplayFile loads a replay record written by Finish.
func ReplayFile(path string) (map[string]any, error) {
	b, err := os.ReadFile(path)
	if err != nil {
		return nil, err
	}
	var m map[string]any
	if err := json.Unmarshal(b, &m); err != nil {
		return nil, err
	}
	r, _ := m["replay"].(map[string]any)
	if r == nil {
		return nil, fmt.Errorf("no replay record in %s", path)
	}
	return r, nil
}

// Ints converts a JSON array to []int.
func Ints(v any) []int {
	a, _ := v.([]any)
	out := make([]int, len(a))
	for i, x := range a {
		f, _ := x.(float64)
		out[i] = int(f)
	}
	return out
}

// ReplayExploration re-runs a recorded schedule of a registered scenario and
// reports whether the violation shows again.
func ReplayExploration(c *Check) bool {
	r, err := ReplayFile(c.Replay)
	if err != nil {
		Fatal("%v", err)
	}
	name, _ := r["scenario"].(string)
	param, _ := r["param"].(string)
	fn := scenarios[name]
	if fn == nil {
		Fatal("replay names unknown scenario %q", name)
	}
	e, obs, msg := vsched.RunOnce(fn(param), Ints(r["choices"]), Ints(r["ns"]), 0, true)
	fmt.Printf("replay scenario=%s param=%s choices=%v\nobservation: %s\n", name, param, r["choices"], obs)
	for _, t := range e.Trace {
		fmt.Println("  ", t)
	}
	if e.Diverged != "" {
		fmt.Println("replay diverged:", e.Diverged)
	}
	for _, st := range e.PanicStacks {
		fmt.Println("panic stack:\n" + st)
	}
	if msg != "" {
		fmt.Printf("VIOLATION property=%s replay=%s\n  %s\n", c.ID, c.Replay, msg)
		return true
	}
	fmt.Println("no violation on replay")
	return false
}
