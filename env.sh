# sourced by every script: offline Go 1.26 toolchain
export GOFLAGS=-mod=mod GOPROXY=off GOSUMDB=off GOTOOLCHAIN=local
export PATH=/opt/veriftools/go1.26.8/bin:$PATH
export VERIF_ROOT=/verif
