#!/bin/bash
# Runs every claimed check's thorough tier in sequence and prints one summary line each.
cd "$(dirname "$0")/.."
./setup.sh >/dev/null 2>&1
for id in "$@"; do
  start=$(date +%s)
  ./check $id --tier thorough > /tmp/thorough-$id.log 2>&1; rc=$?
  echo "$id exit=$rc secs=$(( $(date +%s) - start )) $(grep -E "^$id tier=" /tmp/thorough-$id.log | tail -1)"
  grep -E "^VIOLATION|^KNOWN-FINDING|HARNESS-ERROR" /tmp/thorough-$id.log | head -5
done
