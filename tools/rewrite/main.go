// Command rewrite produces a `go build -overlay` file that replaces the
// non-test Go files of the repository with mechanically rewritten copies:
// imports of sync, sync/atomic, time, context, math/rand/v2 and crypto/rand are
// redirected to the verif/shim packages, and go statements, channel
// operations, select statements and map iteration are routed through
// verif/vsched.  The repository itself is never modified.  Any construct the
// rewriter does not understand is a loud error.
package main

import (
	"bytes"
	"encoding/json"
	"flag"
	"fmt"
	"go/ast"
	"go/printer"
	"go/token"
	"go/types"
	"os"
	"path/filepath"
	"sort"
	"strconv"
	"strings"

	"golang.org/x/tools/go/ast/astutil"
	"golang.org/x/tools/go/packages"
)

const repoMod = "github.com/database64128/shadowsocks-go"

var importMap = map[string][2]string{ // path -> {shim path, default local name}
	"sync":         {"verif/shim/vsync", "sync"},
	"sync/atomic":  {"verif/shim/vatomic", "atomic"},
	"time":         {"verif/shim/vtime", "time"},
	"context":      {"verif/shim/vcontext", "context"},
	"math/rand/v2": {"verif/shim/vrand", "rand"},
	"crypto/rand":  {"verif/shim/vcrand", "rand"},
}

// method calls routed through wrapper functions: "<pkgpath>.<Type>.<Method>" -> {import path, package name, function}
var intercept = map[string][3]string{
	"net.UDPConn.ReadMsgUDPAddrPort":      {"verif/vnet/vudp", "vudp", "UDP_ReadMsgUDPAddrPort"},
	"net.UDPConn.WriteMsgUDPAddrPort":     {"verif/vnet/vudp", "vudp", "UDP_WriteMsgUDPAddrPort"},
	"net.UDPConn.ReadFromUDPAddrPort":     {"verif/vnet/vudp", "vudp", "UDP_ReadFromUDPAddrPort"},
	"net.UDPConn.WriteToUDPAddrPort":      {"verif/vnet/vudp", "vudp", "UDP_WriteToUDPAddrPort"},
	"net.UDPConn.Read":                    {"verif/vnet/vudp", "vudp", "UDP_Read"},
	"net.UDPConn.Write":                   {"verif/vnet/vudp", "vudp", "UDP_Write"},
	"net.UDPConn.SetReadDeadline":         {"verif/vnet/vudp", "vudp", "UDP_SetReadDeadline"},
	"net.UDPConn.SetWriteDeadline":        {"verif/vnet/vudp", "vudp", "UDP_SetWriteDeadline"},
	"net.UDPConn.SetDeadline":             {"verif/vnet/vudp", "vudp", "UDP_SetDeadline"},
	"net.UDPConn.Close":                   {"verif/vnet/vudp", "vudp", "UDP_Close"},
	"net.Resolver.LookupNetIP":            {"verif/vnet/vudp", "vudp", "Resolver_LookupNetIP"},
	repoMod + "/conn.MmsgRConn.ReadMsgs":  {"verif/vnet/vmmsg", "vmmsg", "MmsgR_ReadMsgs"},
	repoMod + "/conn.MmsgWConn.WriteMsgs": {"verif/vnet/vmmsg", "vmmsg", "MmsgW_WriteMsgs"},
}

// method *values* of these would escape interception: loud error
var interceptTypes = map[string]bool{"net.UDPConn": true}

// packages (relative to the module) that are left untouched
var skipPkgs = map[string]bool{
	"logging":  true, // implements zapcore.Clock with real *time.Ticker
	"tlscerts": true,
}

// per-package extra import substitutions
var extraImports = map[string]map[string][2]string{
	"cred": {"os": {"verif/shim/vos", "os"}},
}

type fileRewriter struct {
	fset         *token.FileSet
	info         *types.Info
	file         *ast.File
	relPkg       string
	needVS       bool
	counter      int
	errs         []string
	netHook      bool
	extraImports map[string]bool
	pre          astutil.ApplyFunc
	post         astutil.ApplyFunc
}

func main() {
	repo := flag.String("repo", "/repo", "repository root")
	out := flag.String("out", "", "output directory for rewritten files and overlay.json")
	static := flag.String("static", "", "directory with <pkg>/*.go files to add to repo packages")
	mapTo := flag.String("mapto", "", "overlay keys use this root instead of -repo (to check a scratch worktree while the module replace points at /repo); implies emitting every file")
	flag.Parse()
	if *out == "" {
		fatal("need -out")
	}
	if err := os.MkdirAll(*out, 0o755); err != nil {
		fatal(err.Error())
	}
	cfg := &packages.Config{
		Mode: packages.NeedName | packages.NeedFiles | packages.NeedCompiledGoFiles | packages.NeedSyntax | packages.NeedTypes | packages.NeedTypesInfo | packages.NeedImports | packages.NeedDeps,
		Dir:  *repo,
		Env:  append(os.Environ(), "GOFLAGS=-mod=mod", "GOPROXY=off", "GOSUMDB=off"),
	}
	pkgs, err := packages.Load(cfg, "./...")
	if err != nil {
		fatal("load: " + err.Error())
	}
	overlay := map[string]string{}
	used := map[string]map[string]bool{}
	nerr := 0
	stats := map[string]int{}
	for _, p := range pkgs {
		if len(p.Errors) > 0 {
			for _, e := range p.Errors {
				fmt.Fprintln(os.Stderr, "rewrite: package error:", e)
			}
			nerr++
			continue
		}
		rel := strings.TrimPrefix(strings.TrimPrefix(p.PkgPath, repoMod), "/")
		if strings.HasPrefix(rel, "cmd/") || skipPkgs[rel] {
			continue
		}
		for i, f := range p.Syntax {
			name := p.CompiledGoFiles[i]
			if !strings.HasPrefix(name, *repo+"/") {
				continue
			}
			fr := &fileRewriter{fset: p.Fset, info: p.TypesInfo, file: f, relPkg: rel}
			changed := fr.rewrite(used, stats)
			for _, e := range fr.errs {
				fmt.Fprintf(os.Stderr, "rewrite: %s: %s\n", name, e)
				nerr++
			}
			if !changed && *mapTo == "" {
				continue
			}
			var buf bytes.Buffer
			if err := (&printer.Config{Mode: printer.UseSpaces | printer.TabIndent, Tabwidth: 8}).Fprint(&buf, p.Fset, f); err != nil {
				fatal(name + ": print: " + err.Error())
			}
			relFile := strings.TrimPrefix(name, *repo+"/")
			dst := filepath.Join(*out, "src", relFile)
			os.MkdirAll(filepath.Dir(dst), 0o755)
			if err := os.WriteFile(dst, buf.Bytes(), 0o644); err != nil {
				fatal(err.Error())
			}
			key := name
			if *mapTo != "" {
				key = filepath.Join(*mapTo, relFile)
			}
			overlay[key] = dst
		}
	}
	if nerr > 0 {
		fatal(fmt.Sprintf("%d errors", nerr))
	}
	if *static != "" {
		filepath.Walk(*static, func(path string, fi os.FileInfo, err error) error {
			if err != nil || fi.IsDir() || !strings.HasSuffix(path, ".go") {
				return nil
			}
			rel, _ := filepath.Rel(*static, path)
			root := *repo
			if *mapTo != "" {
				root = *mapTo
			}
			overlay[filepath.Join(root, filepath.Dir(rel), "zz_verif_"+filepath.Base(rel))] = path
			return nil
		})
	}
	b, _ := json.MarshalIndent(map[string]any{"Replace": overlay}, "", " ")
	if err := os.WriteFile(filepath.Join(*out, "overlay.json"), b, 0o644); err != nil {
		fatal(err.Error())
	}
	// report shim surface and rewrite counts
	var keys []string
	for k := range used {
		keys = append(keys, k)
	}
	sort.Strings(keys)
	rep := map[string]any{}
	for _, k := range keys {
		var sels []string
		for s := range used[k] {
			sels = append(sels, s)
		}
		sort.Strings(sels)
		rep[k] = sels
	}
	rep["_counts"] = stats
	rb, _ := json.MarshalIndent(rep, "", " ")
	os.WriteFile(filepath.Join(*out, "surface.json"), rb, 0o644)
	fmt.Printf("rewrite: %d files rewritten, counts=%v\n", len(overlay), stats)
}

func fatal(s string) {
	fmt.Fprintln(os.Stderr, "rewrite: FATAL:", s)
	os.Exit(2)
}

func (r *fileRewriter) errorf(n ast.Node, format string, a ...any) {
	r.errs = append(r.errs, fmt.Sprintf("%s: ", r.fset.Position(n.Pos()))+fmt.Sprintf(format, a...))
}

func vs(name string) ast.Expr {
	return &ast.SelectorExpr{X: ast.NewIdent("vsched"), Sel: ast.NewIdent(name)}
}

func call(fn ast.Expr, args ...ast.Expr) *ast.CallExpr { return &ast.CallExpr{Fun: fn, Args: args} }

func (r *fileRewriter) typeOf(e ast.Expr) types.Type {
	if tv, ok := r.info.Types[e]; ok {
		return tv.Type
	}
	return nil
}

func isChan(t types.Type) bool {
	if t == nil {
		return false
	}
	_, ok := t.Underlying().(*types.Chan)
	return ok
}

func isMap(t types.Type) bool {
	if t == nil {
		return false
	}
	_, ok := t.Underlying().(*types.Map)
	return ok
}

func (r *fileRewriter) isBuiltin(id *ast.Ident, name string) bool {
	if id.Name != name {
		return false
	}
	_, ok := r.info.Uses[id].(*types.Builtin)
	return ok
}

func unparen(e ast.Expr) ast.Expr {
	for {
		p, ok := e.(*ast.ParenExpr)
		if !ok {
			return e
		}
		e = p.X
	}
}

func (r *fileRewriter) rewrite(used map[string]map[string]bool, stats map[string]int) bool {
	f := r.file
	changed := false
	// imports
	subst := map[string][2]string{}
	for k, v := range importMap {
		subst[k] = v
	}
	for k, v := range extraImports[r.relPkg] {
		subst[k] = v
	}
	localNames := map[string]string{} // local name -> original path
	for _, im := range f.Imports {
		path, _ := strconv.Unquote(im.Path.Value)
		m, ok := subst[path]
		if !ok {
			continue
		}
		name := m[1]
		if im.Name != nil {
			name = im.Name.Name
		}
		localNames[name] = path
		im.Path.Value = strconv.Quote(m[0])
		im.Name = ast.NewIdent(name)
		changed = true
	}
	// record used selectors
	ast.Inspect(f, func(n ast.Node) bool {
		if se, ok := n.(*ast.SelectorExpr); ok {
			if id, ok := se.X.(*ast.Ident); ok {
				if pn, ok := r.info.Uses[id].(*types.PkgName); ok {
					p := pn.Imported().Path()
					if _, ok := subst[p]; ok {
						if used[p] == nil {
							used[p] = map[string]bool{}
						}
						used[p][se.Sel.Name] = true
					}
				}
			}
		}
		return true
	})

	pre := func(c *astutil.Cursor) bool {
		switch n := c.Node().(type) {
		case *ast.LabeledStmt:
			if sel, ok := n.Stmt.(*ast.SelectStmt); ok {
				gotoUse, breakUse := false, false
				ast.Inspect(f, func(x ast.Node) bool {
					if b, ok := x.(*ast.BranchStmt); ok && b.Label != nil && b.Label.Name == n.Label.Name {
						if b.Tok == token.GOTO {
							gotoUse = true
						} else {
							breakUse = true
						}
					}
					return true
				})
				if gotoUse && breakUse {
					r.errorf(n, "labelled select used by both goto and break")
				}
				stats["select"]++
				if gotoUse {
					blk := r.rewriteSelect(sel, nil)
					c.Replace(&ast.LabeledStmt{Label: n.Label, Stmt: &ast.EmptyStmt{}})
					c.InsertAfter(blk)
					return false
				}
				blk := r.rewriteSelect(sel, n.Label)
				c.Replace(blk)
				return false
			}
		case *ast.SelectStmt:
			blk := r.rewriteSelect(n, nil)
			c.Replace(blk)
			stats["select"]++
			return false
		case *ast.AssignStmt:
			if len(n.Lhs) == 2 && len(n.Rhs) == 1 {
				if u, ok := unparen(n.Rhs[0]).(*ast.UnaryExpr); ok && u.Op == token.ARROW {
					n.Rhs[0] = call(vs("Recv2"), u.X)
					r.needVS = true
					stats["recv2"]++
				}
			}
		case *ast.ValueSpec:
			if len(n.Names) == 2 && len(n.Values) == 1 {
				if u, ok := unparen(n.Values[0]).(*ast.UnaryExpr); ok && u.Op == token.ARROW {
					n.Values[0] = call(vs("Recv2"), u.X)
					r.needVS = true
					stats["recv2"]++
				}
			}
		}
		return true
	}
	post := func(c *astutil.Cursor) bool {
		switch n := c.Node().(type) {
		case *ast.UnaryExpr:
			if n.Op == token.ARROW {
				c.Replace(call(vs("Recv"), n.X))
				r.needVS = true
				stats["recv"]++
			}
		case *ast.SendStmt:
			c.Replace(&ast.ExprStmt{X: call(vs("Send"), n.Chan, n.Value)})
			r.needVS = true
			stats["send"]++
		case *ast.CallExpr:
			if se, ok := n.Fun.(*ast.SelectorExpr); ok {
				r.interceptCall(n, se, stats)
			}
			if id, ok := n.Fun.(*ast.Ident); ok && len(n.Args) == 1 {
				if r.isBuiltin(id, "close") {
					n.Fun = vs("Close")
					r.needVS = true
					stats["close"]++
				} else if r.isBuiltin(id, "len") && isChan(r.typeOf(n.Args[0])) {
					n.Fun = vs("ChanLen")
					r.needVS = true
					stats["chanlen"]++
				}
			}
		case *ast.RangeStmt:
			t := r.typeOf(n.X)
			if isChan(t) {
				n.X = call(vs("RangeChan"), n.X)
				r.needVS = true
				stats["rangechan"]++
			} else if isMap(t) {
				n.X = call(vs("RangeMap"), n.X)
				r.needVS = true
				stats["rangemap"]++
			}
		case *ast.GoStmt:
			c.Replace(r.rewriteGo(n))
			r.needVS = true
			stats["go"]++
		}
		return true
	}
	r.pre, r.post = pre, post
	astutil.Apply(f, pre, post)
	// Shared-object access points: in the selected packages every statement of a
	// pointer-receiver method that mentions the receiver is preceded by
	// vsched.Touch(recv).  Touch is a scheduling point only for objects that a
	// second thread has touched in the same execution (dynamic sharing
	// detection), so thread-local objects cost nothing.
	if touchPkgs[r.relPkg] {
		for _, d := range f.Decls {
			fd, ok := d.(*ast.FuncDecl)
			if !ok || fd.Recv == nil || fd.Body == nil || len(fd.Recv.List) != 1 || len(fd.Recv.List[0].Names) != 1 {
				continue
			}
			if _, ok := fd.Recv.List[0].Type.(*ast.StarExpr); !ok {
				continue
			}
			recv := fd.Recv.List[0].Names[0]
			if recv.Name == "_" {
				continue
			}
			obj := r.info.Defs[recv]
			if obj == nil {
				continue
			}
			n := r.insertTouches(fd.Body, recv.Name, obj)
			if n > 0 {
				changed = true
				r.needVS = true
				stats["touch"] += n
			}
		}
		if r.needVS {
			astutil.AddImport(r.fset, f, "verif/vsched")
		}
	}
	// Targeted widening: service.(*TCPRelay).handleConn takes netio.Conn instead of
	// *net.TCPConn (its body only uses netio.Conn methods), so that a harness can
	// hand the real function an in-memory connection.
	if r.relPkg == "service" {
		for _, d := range f.Decls {
			fd, ok := d.(*ast.FuncDecl)
			if !ok || fd.Name.Name != "handleConn" || fd.Recv == nil {
				continue
			}
			for _, p := range fd.Type.Params.List {
				if st, ok := p.Type.(*ast.StarExpr); ok {
					if se, ok := st.X.(*ast.SelectorExpr); ok && se.Sel.Name == "TCPConn" {
						if id, ok := se.X.(*ast.Ident); ok && id.Name == "net" {
							p.Type = &ast.SelectorExpr{X: ast.NewIdent("netio"), Sel: ast.NewIdent("Conn")}
							changed = true
							stats["widen"]++
						}
					}
				}
			}
		}
	}
	if r.needVS {
		changed = true
		astutil.AddImport(r.fset, f, "verif/vsched")
	}
	for path := range r.extraImports {
		changed = true
		astutil.AddImport(r.fset, f, path)
	}
	if changed {
		// Drop comments after the package clause: synthesized nodes have no
		// positions and the printer could otherwise misplace a comment into
		// code.  Build constraints (before the package clause) are kept.
		var keep []*ast.CommentGroup
		for _, cg := range f.Comments {
			if cg.End() < f.Package {
				keep = append(keep, cg)
				continue
			}
			for _, cm := range cg.List {
				if strings.HasPrefix(cm.Text, "//go:") && !strings.HasPrefix(cm.Text, "//go:build") && !strings.HasPrefix(cm.Text, "//go:generate") {
					r.errorf(cm, "directive comment %q would be dropped", cm.Text)
				}
			}
		}
		f.Comments = keep
	}
	return changed
}

var touchPkgs = map[string]bool{"direct": true}

func (r *fileRewriter) mentions(n ast.Node, obj types.Object) bool {
	found := false
	ast.Inspect(n, func(x ast.Node) bool {
		if id, ok := x.(*ast.Ident); ok && r.info.Uses[id] == obj {
			found = true
		}
		return !found
	})
	return found
}

func (r *fileRewriter) insertTouches(b *ast.BlockStmt, name string, obj types.Object) int {
	count := 0
	var doList func(list []ast.Stmt) []ast.Stmt
	var doStmt func(s ast.Stmt)
	doStmt = func(s ast.Stmt) {
		switch n := s.(type) {
		case *ast.BlockStmt:
			n.List = doList(n.List)
		case *ast.IfStmt:
			n.Body.List = doList(n.Body.List)
			if n.Else != nil {
				doStmt(n.Else)
			}
		case *ast.ForStmt:
			n.Body.List = doList(n.Body.List)
		case *ast.RangeStmt:
			n.Body.List = doList(n.Body.List)
		case *ast.SwitchStmt:
			for _, c := range n.Body.List {
				cc := c.(*ast.CaseClause)
				cc.Body = doList(cc.Body)
			}
		case *ast.TypeSwitchStmt:
			for _, c := range n.Body.List {
				cc := c.(*ast.CaseClause)
				cc.Body = doList(cc.Body)
			}
		case *ast.LabeledStmt:
			doStmt(n.Stmt)
		}
	}
	doList = func(list []ast.Stmt) []ast.Stmt {
		var out []ast.Stmt
		for _, s := range list {
			if _, isDecl := s.(*ast.DeclStmt); !isDecl && r.mentions(s, obj) {
				out = append(out, &ast.ExprStmt{X: call(vs("Touch"), ast.NewIdent(name))})
				count++
			}
			doStmt(s)
			out = append(out, s)
		}
		return out
	}
	b.List = doList(b.List)
	return count
}

func derefT(t types.Type) types.Type {
	if p, ok := t.(*types.Pointer); ok {
		return p.Elem()
	}
	return t
}

// interceptCall rewrites x.Method(args) into wrapper(x, args) for the methods in
// the intercept table, following embedded fields explicitly.
func (r *fileRewriter) interceptCall(n *ast.CallExpr, se *ast.SelectorExpr, stats map[string]int) {
	sel := r.info.Selections[se]
	if sel == nil || sel.Kind() != types.MethodVal {
		return
	}
	fn, ok := sel.Obj().(*types.Func)
	if !ok {
		return
	}
	// walk the embedding path from the static receiver type down to the type that
	// declares the method; the first type on the path with an intercept entry wins
	keyOf := func(t types.Type) (string, bool) {
		named, ok := derefT(t).(*types.Named)
		if !ok || named.Obj().Pkg() == nil {
			return "", false
		}
		return named.Obj().Pkg().Path() + "." + named.Obj().Name() + "." + fn.Name(), true
	}
	x := se.X
	t := sel.Recv()
	idx := sel.Index()
	var target [3]string
	found := false
	for step := 0; ; step++ {
		if k, ok := keyOf(t); ok {
			if tg, ok := intercept[k]; ok {
				target, found = tg, true
				break
			}
		}
		if step >= len(idx)-1 {
			break
		}
		st, ok := derefT(t).Underlying().(*types.Struct)
		if !ok {
			return
		}
		f := st.Field(idx[step])
		x = &ast.SelectorExpr{X: x, Sel: ast.NewIdent(f.Name())}
		t = f.Type()
	}
	if !found {
		return
	}
	if target[1] == "vmmsg" && r.relPkg == "conn" {
		return // vmmsg imports package conn
	}
	if _, have := t.(*types.Pointer); !have {
		x = &ast.UnaryExpr{Op: token.AND, X: x}
	}
	n.Fun = &ast.SelectorExpr{X: ast.NewIdent(target[1]), Sel: ast.NewIdent(target[2])}
	n.Args = append([]ast.Expr{x}, n.Args...)
	if r.extraImports == nil {
		r.extraImports = map[string]bool{}
	}
	r.extraImports[target[0]] = true
	stats["intercept"]++
}

func (r *fileRewriter) apply(n ast.Node) ast.Node {
	return astutil.Apply(n, r.pre, r.post)
}

func (r *fileRewriter) isConstOrNil(e ast.Expr) bool {
	tv, ok := r.info.Types[e]
	if !ok {
		return false
	}
	return tv.Value != nil || tv.IsNil()
}

func (r *fileRewriter) rewriteGo(n *ast.GoStmt) ast.Stmt {
	ce := n.Call
	if fl, ok := ce.Fun.(*ast.FuncLit); ok && len(ce.Args) == 0 {
		return &ast.ExprStmt{X: call(vs("Go"), fl)}
	}
	r.counter++
	var binds []ast.Stmt
	newArgs := make([]ast.Expr, len(ce.Args))
	for i, a := range ce.Args {
		if r.isConstOrNil(a) {
			newArgs[i] = a
			continue
		}
		if t := r.typeOf(a); t != nil {
			if _, ok := t.(*types.Tuple); ok {
				r.errorf(a, "go statement with multi-value argument not supported")
			}
		}
		name := fmt.Sprintf("_vs%d_a%d", r.counter, i)
		binds = append(binds, &ast.AssignStmt{Lhs: []ast.Expr{ast.NewIdent(name)}, Tok: token.DEFINE, Rhs: []ast.Expr{a}})
		newArgs[i] = ast.NewIdent(name)
	}
	fun := ce.Fun
	if _, ok := fun.(*ast.FuncLit); ok {
		name := fmt.Sprintf("_vs%d_f", r.counter)
		binds = append(binds, &ast.AssignStmt{Lhs: []ast.Expr{ast.NewIdent(name)}, Tok: token.DEFINE, Rhs: []ast.Expr{fun}})
		fun = ast.NewIdent(name)
	}
	inner := &ast.CallExpr{Fun: fun, Args: newArgs, Ellipsis: ce.Ellipsis}
	if ce.Ellipsis.IsValid() {
		inner.Ellipsis = 1
	}
	lit := &ast.FuncLit{Type: &ast.FuncType{Params: &ast.FieldList{}}, Body: &ast.BlockStmt{List: []ast.Stmt{&ast.ExprStmt{X: inner}}}}
	stmts := append(binds, &ast.ExprStmt{X: call(vs("Go"), lit)})
	return &ast.BlockStmt{List: stmts}
}

func (r *fileRewriter) rewriteSelect(sel *ast.SelectStmt, label *ast.Ident) ast.Stmt {
	r.needVS = true
	r.counter++
	id := r.counter
	var binds []ast.Stmt
	var caseExprs []ast.Expr
	hasDefault := false
	var clauses []ast.Stmt
	resName := fmt.Sprintf("_vs%d_r", id)
	idx := 0
	for _, cl := range sel.Body.List {
		cc := cl.(*ast.CommClause)
		// rewrite body first (nested constructs)
		for i, s := range cc.Body {
			cc.Body[i] = r.apply(s).(ast.Stmt)
		}
		if cc.Comm == nil {
			hasDefault = true
			clauses = append(clauses, &ast.CaseClause{List: []ast.Expr{&ast.UnaryExpr{Op: token.SUB, X: &ast.BasicLit{Kind: token.INT, Value: "1"}}}, Body: cc.Body})
			continue
		}
		chName := fmt.Sprintf("_vs%d_c%d", id, idx)
		var body []ast.Stmt
		switch cm := cc.Comm.(type) {
		case *ast.SendStmt:
			chX := r.apply(cm.Chan).(ast.Expr)
			val := r.apply(cm.Value).(ast.Expr)
			binds = append(binds, &ast.AssignStmt{Lhs: []ast.Expr{ast.NewIdent(chName)}, Tok: token.DEFINE, Rhs: []ast.Expr{chX}})
			caseExprs = append(caseExprs, call(vs("CaseSend"), ast.NewIdent(chName), val))
		case *ast.ExprStmt:
			u, ok := unparen(cm.X).(*ast.UnaryExpr)
			if !ok || u.Op != token.ARROW {
				r.errorf(cm, "unsupported select comm")
				continue
			}
			chX := r.apply(u.X).(ast.Expr)
			binds = append(binds, &ast.AssignStmt{Lhs: []ast.Expr{ast.NewIdent(chName)}, Tok: token.DEFINE, Rhs: []ast.Expr{chX}})
			caseExprs = append(caseExprs, call(vs("CaseRecv"), ast.NewIdent(chName)))
		case *ast.AssignStmt:
			u, ok := unparen(cm.Rhs[0]).(*ast.UnaryExpr)
			if !ok || u.Op != token.ARROW || len(cm.Rhs) != 1 {
				r.errorf(cm, "unsupported select comm")
				continue
			}
			chX := r.apply(u.X).(ast.Expr)
			binds = append(binds, &ast.AssignStmt{Lhs: []ast.Expr{ast.NewIdent(chName)}, Tok: token.DEFINE, Rhs: []ast.Expr{chX}})
			caseExprs = append(caseExprs, call(vs("CaseRecv"), ast.NewIdent(chName)))
			fn := "SelValue"
			if len(cm.Lhs) == 2 {
				fn = "SelValue2"
			}
			body = append(body, &ast.AssignStmt{Lhs: cm.Lhs, Tok: cm.Tok, Rhs: []ast.Expr{call(vs(fn), ast.NewIdent(chName), ast.NewIdent(resName))}})
		default:
			r.errorf(cc, "unsupported select comm %T", cm)
			continue
		}
		body = append(body, cc.Body...)
		clauses = append(clauses, &ast.CaseClause{List: []ast.Expr{&ast.BasicLit{Kind: token.INT, Value: strconv.Itoa(idx)}}, Body: body})
		idx++
	}
	clauses = append(clauses, &ast.CaseClause{List: nil, Body: []ast.Stmt{&ast.ExprStmt{X: call(ast.NewIdent("panic"), &ast.BasicLit{Kind: token.STRING, Value: `"vsched: bad select index"`})}}})
	hd := "false"
	if hasDefault {
		hd = "true"
	}
	args := append([]ast.Expr{ast.NewIdent(hd)}, caseExprs...)
	sw := &ast.SwitchStmt{
		Init: &ast.AssignStmt{Lhs: []ast.Expr{ast.NewIdent(resName)}, Tok: token.DEFINE, Rhs: []ast.Expr{call(vs("Select"), args...)}},
		Tag:  &ast.SelectorExpr{X: ast.NewIdent(resName), Sel: ast.NewIdent("Index")},
		Body: &ast.BlockStmt{List: clauses},
	}
	var swStmt ast.Stmt = sw
	if label != nil {
		swStmt = &ast.LabeledStmt{Label: label, Stmt: sw}
	}
	return &ast.BlockStmt{List: append(binds, swStmt)}
}
