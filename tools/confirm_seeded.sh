#!/bin/bash
# usage: tools/confirm_seeded.sh <seed-dir> <pkgdir> <demo-run-regex>
# Confirms in a scratch worktree that (1) the demonstration passes on the
# unchanged tree, (2) with the patch the tree builds, the package's own tests
# (without the demo) still pass, and (3) the demonstration fails.
set -u
. /verif/env.sh
d=$(readlink -f "$1"); pkg="$2"; re="$3"
wt=$(mktemp -d /tmp/confwt.XXXXXX); rmdir "$wt"
git -C /repo worktree add -q --detach "$wt" HEAD || exit 2
trap 'git -C /repo worktree remove --force "$wt" >/dev/null 2>&1' EXIT
cd "$wt"
cp "$d"/demo_test.go "$pkg"/zz_demo_test.go
go test -count=1 -run "$re" ./"$pkg"/ >/tmp/conf.$$.a 2>&1; a=$?
git apply "$d/patch.diff" || { echo "patch does not apply"; exit 2; }
go build ./... >/tmp/conf.$$.b 2>&1; b=$?
go test -count=1 -run "$re" ./"$pkg"/ >/tmp/conf.$$.c 2>&1; c=$?
rm "$pkg"/zz_demo_test.go
go test -count=1 ./"$pkg"/ >/tmp/conf.$$.d 2>&1; dd=$?
echo "confirm $(basename $d): demo-unchanged=$a (want 0) build=$b (want 0) demo-with-change=$c (want !=0) pkg-tests-with-change=$dd (want 0)"
tail -3 /tmp/conf.$$.c | cut -c1-200
rm -f /tmp/conf.$$.*
