#!/bin/bash
# usage: tools/try_seeded.sh <patch.diff> <CNN> [tier]
# Applies a seeded change to a scratch worktree of /repo (never /repo itself),
# runs the check against it through VERIF_REPO, and removes the worktree.
set -u
patch=$(readlink -f "$1"); id="$2"; tier="${3:-quick}"
cd /verif
wt=$(mktemp -d /tmp/seedwt.XXXXXX); rmdir "$wt"
git -C /repo worktree add -q --detach "$wt" HEAD || exit 2
trap 'git -C /repo worktree remove --force "$wt" >/dev/null 2>&1' EXIT
if ! git -C "$wt" apply "$patch"; then echo "patch does not apply" >&2; exit 2; fi
ev=evidence/$id.json; [ -f $ev ] && cp $ev /tmp/ev-$id.$$.json
VERIF_REPO="$wt" ./check "$id" --tier "$tier"
rc=$?
[ -f /tmp/ev-$id.$$.json ] && mv /tmp/ev-$id.$$.json $ev   # evidence must come from runs against /repo itself
echo "try_seeded: $id on $(basename "$(dirname "$patch")") -> exit $rc"
exit $rc
