#!/bin/bash
# usage: tools/intake_seeded.sh <cNN> <round>   e.g. c19 3
# Copies a sub-agent's deliverables from /tmp/mut<round>out-<cNN> into seeded/<cNN>-agent<round>, removes the
# agent's scratch worktree, and runs the property's quick check against the seeded change.
set -u
c="$1"; r="$2"; id=$(echo "$c" | tr a-z A-Z)
src=/tmp/mut${r}out-$c; dst=/verif/seeded/$c-agent$r
mkdir -p "$dst"; cp "$src"/patch.diff "$src"/README.md "$dst"/ 2>/dev/null
cp "$src"/demo_test.go "$dst"/ 2>/dev/null || cp -r "$src"/* "$dst"/
git -C /repo worktree remove --force /tmp/mut${r}-$c >/dev/null 2>&1
/verif/tools/try_seeded.sh "$dst/patch.diff" "$id" quick 2>&1 | grep -E "VIOLATION|signature|tier=|try_seeded|HARNESS|rror" | cut -c1-300 | head -12
