package vsched

import (
	"sort"
	"time"
)

// Epoch is the virtual clock's starting instant: 2025-01-01T00:00:00Z.
const Epoch int64 = 1735689600 * 1e9

var (
	clockOn  bool
	clockNow int64
)

func clockReset() { clockOn = true; clockNow = Epoch }
func clockOff()   { clockOn = false }

// ClockOn reports whether time is virtual.
func ClockOn() bool { return clockOn }

// SetClock switches to virtual time at instant ns (Unix nanoseconds).  Usable
// without a controlled execution by sequential checks.
func SetClock(ns int64) { clockOn = true; clockNow = ns }

// ClearClock returns to real time.
func ClearClock() { clockOn = false }

// NowNS returns the virtual instant in Unix nanoseconds.
func NowNS() int64 { return clockNow }

// Now returns the current (virtual or real) time.
func Now() time.Time {
	if clockOn {
		return time.Unix(0, clockNow)
	}
	return time.Now()
}

// Advance moves the virtual clock without firing timers (sequential checks only).
func Advance(d time.Duration) {
	if active != nil && len(active.timers) > 0 {
		panic("vsched.Advance with pending timers inside an execution; use Sleep")
	}
	clockNow += int64(d)
}

type vtimer struct {
	when   int64
	seq    int
	fire   func()
	active bool
	period int64
}

// TimerHandle is an armed virtual timer.
type TimerHandle struct{ t *vtimer }

// AddTimer arms a timer that calls fire (in scheduler context; it must not
// block) at now+d.  period > 0 re-arms it.
func AddTimer(d time.Duration, period time.Duration, fire func()) *TimerHandle {
	e := active
	if e == nil {
		panic("vsched.AddTimer outside execution")
	}
	if d < 0 {
		d = 0
	}
	e.timerSeq++
	t := &vtimer{when: clockNow + int64(d), seq: e.timerSeq, fire: fire, active: true, period: int64(period)}
	e.timers = append(e.timers, t)
	return &TimerHandle{t}
}

// Stop disarms the timer and reports whether it was armed.
func (h *TimerHandle) Stop() bool {
	was := h.t.active
	h.t.active = false
	e := active
	if e != nil && was {
		for i, t := range e.timers {
			if t == h.t {
				e.timers = append(e.timers[:i], e.timers[i+1:]...)
				break
			}
		}
	}
	return was
}

// Reset re-arms the timer to fire at now+d; reports whether it was armed.
func (h *TimerHandle) Reset(d time.Duration) bool {
	was := h.Stop()
	e := active
	if d < 0 {
		d = 0
	}
	e.timerSeq++
	h.t.when = clockNow + int64(d)
	h.t.seq = e.timerSeq
	h.t.active = true
	e.timers = append(e.timers, h.t)
	return was
}

// Active reports whether the timer is armed.
func (h *TimerHandle) Active() bool { return h.t.active }

func (e *Exec) nextTimer() *vtimer {
	if len(e.timers) == 0 {
		return nil
	}
	sort.SliceStable(e.timers, func(i, j int) bool {
		if e.timers[i].when != e.timers[j].when {
			return e.timers[i].when < e.timers[j].when
		}
		return e.timers[i].seq < e.timers[j].seq
	})
	return e.timers[0]
}

func (e *Exec) clockCandidate() bool {
	t := e.nextTimer()
	if t == nil {
		return false
	}
	if e.ClockLimit > 0 && t.when > e.ClockLimit {
		return false
	}
	return true
}

func (e *Exec) fireNextTimer() {
	t := e.nextTimer()
	// timers due at the same instant may fire in any order: an environment choice
	same := 1
	for same < len(e.timers) && e.timers[same].when == t.when {
		same++
	}
	pick := 0
	if same > 1 {
		pick = e.choose(same, KindEnv, false, -1)
	}
	t = e.timers[pick]
	e.timers = append(e.timers[:pick], e.timers[pick+1:]...)
	if t.when > clockNow {
		clockNow = t.when
	}
	if e.TraceOn {
		e.Trace = append(e.Trace, "clock:fire")
	}
	if t.period > 0 {
		e.timerSeq++
		t.when += t.period
		t.seq = e.timerSeq
		e.timers = append(e.timers, t)
	} else {
		t.active = false
	}
	t.fire()
}

// SetClockLimit stops the clock pseudo thread from firing timers later than
// now+d (0 removes the limit).  Used by promptness oracles.
func SetClockLimit(d time.Duration) {
	e := active
	if e == nil {
		return
	}
	if d == 0 {
		e.ClockLimit = 0
		return
	}
	e.ClockLimit = clockNow + int64(d)
}

// Sleep blocks the calling thread for d of virtual time.
func Sleep(d time.Duration) {
	e := active
	if e == nil {
		if clockOn {
			clockNow += int64(d)
			return
		}
		time.Sleep(d)
		return
	}
	fired := false
	AddTimer(d, 0, func() { fired = true })
	PointIf(func() bool { return fired }, "sleep")
}

// PendingTimers returns the number of armed timers.
func PendingTimers() int {
	if active == nil {
		return 0
	}
	return len(active.timers)
}
