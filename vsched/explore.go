package vsched

import (
	"fmt"
	"os"
	"time"
)

// Options bound an exploration.
type Options struct {
	Bound           int           // maximum number of deviations per execution
	Horizon         int           // maximum scheduling steps per execution (0 = 100000)
	MaxExecs        int64         // cap on executions (0 = none); hitting it clears Exhaustive
	Deadline        time.Time     // real-time cap (zero = none); hitting it clears Exhaustive
	ShardIndex      int           // this worker's index
	ShardCount      int           // number of workers (0/1 = no sharding)
	ShardDepth      int           // recursion depth at which subtrees are dealt out (default 1)
	ExecLimit       time.Duration // real-time hang detector per execution (0 = 120 s)
	StopOnViolation bool
	// DelayBounded makes every non-default scheduling choice cost one deviation
	// (delay bounding); otherwise only preemptions and early timers cost
	// (preemption bounding) and switches away from a blocked thread are free.
	DelayBounded bool
	// NoEarlyClock never lets a timer fire while a thread is runnable (timers only
	// fire at quiescence); for properties whose quantifier does not range over timer orders.
	NoEarlyClock bool
}

// Violation is a failed oracle with the choice list that reproduces it.
type Violation struct {
	Msg     string
	Choices []int
	Ns      []int
	Obs     string
	Trace   []string
}

// Stats summarise an exploration.
type Stats struct {
	Execs          int64
	Steps          int64
	ChoicePoints   int64
	Deadlocks      int64
	Horizons       int64
	PanicExecs     int64
	MaxChoices     int
	Exhaustive     bool
	CapReason      string
	Bound          int
	BoundCompleted int
	Bounding       string
	Observations   map[string]int64 // distinct observation keys -> executions
	Violations     []Violation
	ByDeviation    map[int]int64
	// ReplayRetries counts executions thrown away because their prefix did not replay (see explore).
	ReplayRetries int64
}

// Scenario builds one fresh instance: body runs as thread 0; check is called
// after the execution has ended and returns an observation key (hashed for
// distinct-outcome counting) and a non-empty message on violation.
type Scenario func() (body func(), check func(e *Exec) (obs string, violation string))

func (x *explorer) cost(c ChoiceRec) int {
	if c.Pick == 0 {
		return 0
	}
	switch c.Kind {
	case KindFree:
		return 0
	case KindSched:
		if x.opts.DelayBounded || c.SelfEnabled || c.Pick == c.ClockAt {
			return 1
		}
		return 0
	}
	return 1
}

func (x *explorer) altCost(c ChoiceRec, alt int) int {
	c.Pick = alt
	return x.cost(c)
}

type explorer struct {
	opts    Options
	sc      Scenario
	st      *Stats
	counter int64
	stop    bool
}

// RunOnce runs the scenario with the given choice prefix.
func RunOnce(sc Scenario, prefix, ns []int, horizon int, trace bool) (*Exec, string, string) {
	body, check := sc()
	if horizon == 0 {
		horizon = 100000
	}
	e := runGuarded(prefix, ns, horizon, trace, body, 120*time.Second)
	obs, v := check(e)
	return e, obs, v
}

func runGuarded(prefix, ns []int, horizon int, trace bool, body func(), limit time.Duration) *Exec {
	done := make(chan *Exec, 1)
	go func() { done <- Run(prefix, ns, horizon, trace, body) }()
	select {
	case e := <-done:
		return e
	case <-time.After(limit):
		panic(fmt.Sprintf("vsched: execution exceeded real-time limit %v (a thread blocked outside the scheduler?) prefix=%v", limit, prefix))
	}
}

// Explore enumerates every execution of sc within opts.Bound deviations.
func Explore(sc Scenario, opts Options) *Stats {
	if opts.Horizon == 0 {
		opts.Horizon = 100000
	}
	if opts.ShardCount == 0 {
		opts.ShardCount = 1
	}
	if opts.ShardDepth == 0 {
		opts.ShardDepth = 1
	}
	if opts.ExecLimit == 0 {
		opts.ExecLimit = 120 * time.Second
	}
	st := &Stats{Exhaustive: true, Bound: opts.Bound, BoundCompleted: opts.Bound, Observations: map[string]int64{}, ByDeviation: map[int]int64{}}
	x := &explorer{opts: opts, sc: sc, st: st}
	x.explore(nil, nil, 0)
	return st
}

func (x *explorer) explore(prefix, ns []int, depth int) {
	if x.stop {
		return
	}
	if depth == x.opts.ShardDepth && x.opts.ShardCount > 1 {
		mine := x.counter%int64(x.opts.ShardCount) == int64(x.opts.ShardIndex)
		x.counter++
		if !mine {
			return
		}
	}
	if x.opts.MaxExecs > 0 && x.st.Execs >= x.opts.MaxExecs {
		x.st.Exhaustive = false
		x.st.CapReason = "max executions"
		x.stop = true
		return
	}
	if !x.opts.Deadline.IsZero() && time.Now().After(x.opts.Deadline) {
		x.st.Exhaustive = false
		x.st.CapReason = "time budget"
		x.stop = true
		return
	}
	body, check := x.sc()
	e := runGuarded(prefix, ns, x.opts.Horizon, false, body, x.opts.ExecLimit)
	// A prefix that does not replay means something outside the scheduler's control differed between two
	// runs (with real loopback sockets: the kernel).  The diverged execution is thrown away - it is not one of
	// the executions being enumerated - and the prefix is run again on a fresh instance; only a divergence
	// that persists is fatal.  Every retry is counted and reported.
	for attempt := 0; e.Diverged != ""; attempt++ {
		if attempt == 4 {
			panic("vsched: nondeterminism while replaying a prefix (5 attempts): " + e.Diverged + fmt.Sprintf(" prefix=%v", prefix))
		}
		x.st.ReplayRetries++
		msg := e.Diverged
		if len(msg) > 200 {
			msg = msg[:60] + " ... " + msg[len(msg)-400:]
		}
		fmt.Fprintln(os.Stderr, "vsched: prefix did not replay, running it again:", msg)
		body, check = x.sc()
		e = runGuarded(prefix, ns, x.opts.Horizon, false, body, x.opts.ExecLimit)
	}
	obs, viol := check(e)
	counted := depth >= x.opts.ShardDepth || x.opts.ShardIndex == 0 || x.opts.ShardCount <= 1
	devs := 0
	for _, c := range e.Choices {
		devs += x.cost(c)
	}
	if counted {
		x.st.Execs++
		x.st.Steps += int64(e.Steps)
		x.st.ChoicePoints += int64(len(e.Choices))
		if e.Deadlock {
			x.st.Deadlocks++
		}
		if e.HorizonHit {
			x.st.Horizons++
		}
		if len(e.Panics) > 0 {
			x.st.PanicExecs++
		}
		if len(e.Choices) > x.st.MaxChoices {
			x.st.MaxChoices = len(e.Choices)
		}
		x.st.Observations[obs]++
		x.st.ByDeviation[devs]++
	}
	if viol != "" {
		if counted {
			v := Violation{Msg: viol, Obs: obs}
			for _, c := range e.Choices {
				v.Choices = append(v.Choices, c.Pick)
				v.Ns = append(v.Ns, c.N)
			}
			// drop trailing default choices: replay takes 0 there anyway
			for len(v.Choices) > 0 && v.Choices[len(v.Choices)-1] == 0 {
				v.Choices = v.Choices[:len(v.Choices)-1]
				v.Ns = v.Ns[:len(v.Ns)-1]
			}
			x.st.Violations = append(x.st.Violations, v)
		}
		if x.opts.StopOnViolation {
			x.stop = true
			return
		}
	}
	// branch
	used := 0
	for i := 0; i < len(e.Choices); i++ {
		c := e.Choices[i]
		if i >= len(prefix) {
			for alt := 1; alt < c.N; alt++ {
				if used+x.altCost(c, alt) > x.opts.Bound {
					continue
				}
				if x.opts.NoEarlyClock && c.Kind == KindSched && alt == c.ClockAt {
					continue
				}
				np := make([]int, i+1)
				nn := make([]int, i+1)
				for j := 0; j < i; j++ {
					np[j] = e.Choices[j].Pick
					nn[j] = e.Choices[j].N
				}
				np[i] = alt
				nn[i] = c.N
				x.explore(np, nn, depth+1)
				if x.stop {
					return
				}
			}
		}
		used += x.cost(c)
	}
}
