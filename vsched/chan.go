package vsched

import (
	"fmt"
	"iter"
	"reflect"
	"runtime"
	"sort"
)

// Channels stay native Go values in the code under test; every operation is
// performed on a shadow channel owned by the scheduler and keyed by the native
// channel's identity.  The native channel is never operated on while an
// execution is active.

type shadowChan struct {
	key    uintptr
	ref    any // keeps the native channel alive so the key is not reused
	cap    int
	buf    []any
	closed bool
}

func (e *Exec) shadow(ch any) *shadowChan {
	v := reflect.ValueOf(ch)
	if v.Kind() != reflect.Chan {
		panic("vsched: not a channel")
	}
	if v.IsNil() {
		return nil
	}
	k := v.Pointer()
	s := e.chans[k]
	if s == nil {
		s = &shadowChan{key: k, ref: ch, cap: v.Cap()}
		e.chans[k] = s
	}
	return s
}

type selCase struct {
	ch   *shadowChan
	send bool
	val  any
}

type pendingSel struct {
	cases      []selCase
	hasDefault bool
	// filled when a partner completes the operation
	idx int
	val any
	ok  bool
}

// SelCase is one case of a rewritten select statement.
type SelCase struct {
	c selCase
}

// SelResult is the outcome of Select.
type SelResult struct {
	Index int
	val   any
	ok    bool
}

// CaseRecv builds a receive case.
func CaseRecv[T any](ch <-chan T) SelCase {
	e := active
	if e == nil {
		return SelCase{selCase{ch: nil, val: ch}}
	}
	return SelCase{selCase{ch: e.shadow(ch)}}
}

// CaseSend builds a send case.
func CaseSend[T any](ch chan<- T, v T) SelCase {
	e := active
	if e == nil {
		return SelCase{selCase{ch: nil, send: true, val: []any{ch, v}}}
	}
	return SelCase{selCase{ch: e.shadow(ch), send: true, val: v}}
}

// otherParked reports whether a thread other than self is parked on ch with an
// operation of the wanted direction, and returns it.
func (e *Exec) partner(self *thread, ch *shadowChan, wantSend bool) (*thread, int) {
	for _, t := range e.threads {
		if t == self || t.done || t.completed || t.pend == nil || !t.waiting || t.pend.hasDefault {
			continue
		}
		for i, c := range t.pend.cases {
			if c.ch == ch && c.send == wantSend {
				return t, i
			}
		}
	}
	return nil, -1
}

func (e *Exec) caseReady(self *thread, c selCase) bool {
	if c.ch == nil {
		return false
	}
	if c.send {
		if c.ch.closed {
			return true // will panic, as in Go
		}
		if len(c.ch.buf) < c.ch.cap {
			return true
		}
		if c.ch.cap > 0 {
			return false // full buffered channel: a waiting receiver is merely not scheduled yet
		}
		t, _ := e.partner(self, c.ch, false)
		return t != nil
	}
	if len(c.ch.buf) > 0 || c.ch.closed {
		return true
	}
	if c.ch.cap > 0 {
		return false // empty buffered channel: a waiting sender is merely not scheduled yet
	}
	t, _ := e.partner(self, c.ch, true)
	return t != nil
}

func (e *Exec) doCase(self *thread, c selCase) (val any, ok bool) {
	s := c.ch
	if c.send {
		if s.closed {
			panic("send on closed channel")
		}
		// unbuffered: hand directly to a parked receiver
		if s.cap == 0 {
			if t, i := e.partner(self, s, false); t != nil {
				t.pend.idx, t.pend.val, t.pend.ok = i, c.val, true
				t.completed = true
				return nil, true
			}
		}
		if len(s.buf) < s.cap {
			s.buf = append(s.buf, c.val)
			return nil, true
		}
		panic("vsched: send case executed while not ready")
	}
	if len(s.buf) > 0 {
		val = s.buf[0]
		s.buf = s.buf[1:]
		// a parked sender can now move its value into the buffer
		if t, i := e.partner(self, s, true); t != nil {
			s.buf = append(s.buf, t.pend.cases[i].val)
			t.pend.idx, t.pend.ok = i, true
			t.completed = true
		}
		return val, true
	}
	if s.cap == 0 {
		if t, i := e.partner(self, s, true); t != nil {
			val = t.pend.cases[i].val
			t.pend.idx, t.pend.ok = i, true
			t.completed = true
			return val, true
		}
	}
	if s.closed {
		return nil, false
	}
	panic("vsched: recv case executed while not ready")
}

func (e *Exec) selectOp(cases []selCase, hasDefault bool, desc string) (int, any, bool) {
	if e.aborting {
		runtime.Goexit()
	}
	self := e.running
	p := &pendingSel{cases: cases, idx: -2, hasDefault: hasDefault}
	self.pend = p
	self.completed = false
	self.enabled = func() bool {
		if hasDefault {
			return true
		}
		for _, c := range cases {
			if e.caseReady(self, c) {
				return true
			}
		}
		return false
	}
	self.desc = desc
	self.waiting = true
	e.schedule(self)
	self.waiting = false
	self.enabled = nil
	self.pend = nil
	if self.completed {
		self.completed = false
		return p.idx, p.val, p.ok
	}
	var ready []int
	for i, c := range cases {
		if e.caseReady(self, c) {
			ready = append(ready, i)
		}
	}
	if len(ready) == 0 {
		if hasDefault {
			return -1, nil, false
		}
		panic("vsched: select scheduled with nothing ready")
	}
	pick := 0
	if len(ready) > 1 {
		pick = e.choose(len(ready), KindSelect, false, -1)
	}
	i := ready[pick]
	v, ok := e.doCase(self, cases[i])
	return i, v, ok
}

// Select performs a rewritten select statement.  Index is -1 for default.
func Select(hasDefault bool, cases ...SelCase) SelResult {
	e := active
	if e == nil {
		return nativeSelect(hasDefault, cases)
	}
	cs := make([]selCase, len(cases))
	for i, c := range cases {
		cs[i] = c.c
	}
	i, v, ok := e.selectOp(cs, hasDefault, "select")
	return SelResult{Index: i, val: v, ok: ok}
}

func nativeSelect(hasDefault bool, cases []SelCase) SelResult {
	rc := make([]reflect.SelectCase, 0, len(cases)+1)
	for _, c := range cases {
		if c.c.send {
			p := c.c.val.([]any)
			rc = append(rc, reflect.SelectCase{Dir: reflect.SelectSend, Chan: reflect.ValueOf(p[0]), Send: reflect.ValueOf(p[1])})
			if !rc[len(rc)-1].Send.IsValid() {
				rc[len(rc)-1].Send = reflect.Zero(rc[len(rc)-1].Chan.Type().Elem())
			}
		} else {
			rc = append(rc, reflect.SelectCase{Dir: reflect.SelectRecv, Chan: reflect.ValueOf(c.c.val)})
		}
	}
	if hasDefault {
		rc = append(rc, reflect.SelectCase{Dir: reflect.SelectDefault})
	}
	i, v, ok := reflect.Select(rc)
	if hasDefault && i == len(cases) {
		return SelResult{Index: -1}
	}
	var val any
	if v.IsValid() {
		val = v.Interface()
	}
	return SelResult{Index: i, val: val, ok: ok}
}

func conv[T any](v any) T {
	if v == nil {
		var z T
		return z
	}
	return v.(T)
}

// SelValue returns the value received by the chosen receive case.
func SelValue[T any](ch <-chan T, r SelResult) T { return conv[T](r.val) }

// SelValue2 returns the value and ok flag of the chosen receive case.
func SelValue2[T any](ch <-chan T, r SelResult) (T, bool) { return conv[T](r.val), r.ok }

// Send is ch <- v.
func Send[T any](ch chan<- T, v T) {
	e := active
	if e == nil {
		ch <- v
		return
	}
	e.selectOp([]selCase{{ch: e.shadow(ch), send: true, val: v}}, false, "send")
}

// Recv is <-ch.
func Recv[T any](ch <-chan T) T {
	e := active
	if e == nil {
		return <-ch
	}
	_, v, _ := e.selectOp([]selCase{{ch: e.shadow(ch)}}, false, "recv")
	return conv[T](v)
}

// Recv2 is v, ok := <-ch.
func Recv2[T any](ch <-chan T) (T, bool) {
	e := active
	if e == nil {
		v, ok := <-ch
		return v, ok
	}
	_, v, ok := e.selectOp([]selCase{{ch: e.shadow(ch)}}, false, "recv")
	return conv[T](v), ok
}

// Close is close(ch).
func Close[T any](ch chan<- T) {
	e := active
	if e == nil {
		close(ch)
		return
	}
	Point("close")
	s := e.shadow(ch)
	if s == nil {
		panic("close of nil channel")
	}
	if s.closed {
		panic("close of closed channel")
	}
	s.closed = true
}

// CloseNoPoint closes the shadow of ch without a scheduling point (for shims
// that close from scheduler context, e.g. timers and context cancellation).
func CloseNoPoint(ch any) {
	e := active
	if e == nil {
		reflect.ValueOf(ch).Close()
		return
	}
	s := e.shadow(ch)
	if !s.closed {
		s.closed = true
	}
}

// OfferNoPoint appends v to ch's shadow buffer if there is room (timer channels).
func OfferNoPoint(ch any, v any) bool {
	e := active
	s := e.shadow(ch)
	if len(s.buf) < s.cap {
		s.buf = append(s.buf, v)
		return true
	}
	return false
}

// DrainNoPoint empties ch's shadow buffer (Timer.Stop/Reset semantics since Go 1.23).
func DrainNoPoint(ch any) {
	e := active
	if e == nil {
		return
	}
	s := e.shadow(ch)
	s.buf = nil
}

// ChanLen is len(ch) on the shadow.
func ChanLen(ch any) int {
	e := active
	if e == nil {
		return reflect.ValueOf(ch).Len()
	}
	s := e.shadow(ch)
	if s == nil {
		return 0
	}
	return len(s.buf)
}

// RangeChan is for v := range ch.
func RangeChan[T any](ch <-chan T) iter.Seq[T] {
	return func(yield func(T) bool) {
		for {
			v, ok := Recv2(ch)
			if !ok {
				return
			}
			if !yield(v) {
				return
			}
		}
	}
}

// MapKeyString, when set by a harness, canonicalises map keys for ordering
// (e.g. maps ephemeral ports to logical names).
var MapKeyString func(k any) string

// RangeMap is for k, v := range m with the iteration order owned by the
// scheduler: canonical (sorted by printed key) by default; other rotations are
// environment deviations.
func RangeMap[M ~map[K]V, K comparable, V any](m M) iter.Seq2[K, V] {
	return func(yield func(K, V) bool) {
		if active == nil {
			for k, v := range m {
				if !yield(k, v) {
					return
				}
			}
			return
		}
		keys := make([]K, 0, len(m))
		for k := range m {
			keys = append(keys, k)
		}
		ks := make([]string, len(keys))
		idx := make([]int, len(keys))
		for i, k := range keys {
			if MapKeyString != nil {
				ks[i] = MapKeyString(k)
			} else {
				ks[i] = fmt.Sprint(k)
			}
			idx[i] = i
		}
		sort.SliceStable(idx, func(a, b int) bool { return ks[idx[a]] < ks[idx[b]] })
		rot := 0
		if len(keys) > 1 {
			rot = Choose(len(keys))
		}
		for j := range idx {
			k := keys[idx[(j+rot)%len(idx)]]
			v, ok := m[k]
			if !ok {
				continue
			}
			if !yield(k, v) {
				return
			}
		}
	}
}
