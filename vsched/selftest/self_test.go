package selftest

import (
	"fmt"
	"testing"
	"time"

	atomic "verif/shim/vatomic"
	sync "verif/shim/vsync"
	vtime "verif/shim/vtime"
	"verif/vsched"
)

func TestLostUpdate(t *testing.T) {
	sc := func() (func(), func(*vsched.Exec) (string, string)) {
		var x atomic.Uint64
		var wg sync.WaitGroup
		body := func() {
			for i := 0; i < 2; i++ {
				wg.Go(func() { v := x.Load(); x.Store(v + 1) })
			}
			wg.Wait()
		}
		return body, func(e *vsched.Exec) (string, string) {
			if e.Deadlock || len(e.Panics) > 0 {
				return "bad", fmt.Sprint(e.Deadlock, e.Panics)
			}
			v := x.Load()
			if v != 2 {
				return fmt.Sprint(v), "lost update"
			}
			return fmt.Sprint(v), ""
		}
	}
	st0 := vsched.Explore(sc, vsched.Options{Bound: 0})
	if len(st0.Violations) != 0 {
		t.Fatalf("bound 0 should not find it: %+v", st0.Violations)
	}
	st := vsched.Explore(sc, vsched.Options{Bound: 1})
	t.Logf("execs=%d obs=%v viol=%d", st.Execs, st.Observations, len(st.Violations))
	if len(st.Violations) == 0 {
		t.Fatal("lost update not found")
	}
	v := st.Violations[0]
	for i := 0; i < 3; i++ {
		_, obs, msg := vsched.RunOnce(sc, v.Choices, v.Ns, 0, false)
		if msg == "" || obs != v.Obs {
			t.Fatalf("replay mismatch %q %q", obs, msg)
		}
	}
}

func TestDeadlock(t *testing.T) {
	sc := func() (func(), func(*vsched.Exec) (string, string)) {
		var a, b sync.Mutex
		var wg sync.WaitGroup
		body := func() {
			wg.Go(func() { a.Lock(); b.Lock(); b.Unlock(); a.Unlock() })
			wg.Go(func() { b.Lock(); a.Lock(); a.Unlock(); b.Unlock() })
			wg.Wait()
		}
		return body, func(e *vsched.Exec) (string, string) {
			if e.Deadlock {
				return "deadlock", "deadlock " + fmt.Sprint(e.Blocked)
			}
			return "ok", ""
		}
	}
	st := vsched.Explore(sc, vsched.Options{Bound: 1})
	t.Logf("execs=%d obs=%v", st.Execs, st.Observations)
	if st.Deadlocks == 0 {
		t.Fatal("deadlock not found")
	}
}

func TestChan(t *testing.T) {
	sc := func() (func(), func(*vsched.Exec) (string, string)) {
		ch := make(chan int)
		done := make(chan struct{})
		var got []int
		var timedOut bool
		body := func() {
			vsched.Go(func() { vsched.Send(ch, 1); vsched.Send(ch, 2); vsched.Close(done) })
			tm := vtime.After(5 * time.Second)
			for {
				r := vsched.Select(false, vsched.CaseRecv(ch), vsched.CaseRecv(done), vsched.CaseRecv(tm))
				switch r.Index {
				case 0:
					got = append(got, vsched.SelValue(ch, r))
					continue
				case 1:
				case 2:
					timedOut = true
				}
				break
			}
		}
		return body, func(e *vsched.Exec) (string, string) {
			if (e.Deadlock && !timedOut) || len(e.Panics) > 0 {
				return "bad", fmt.Sprint(e.Deadlock, e.Panics, e.Blocked)
			}
			o := fmt.Sprint(got, timedOut)
			if !timedOut && len(got) != 2 {
				return o, "lost value"
			}
			return o, ""
		}
	}
	st := vsched.Explore(sc, vsched.Options{Bound: 2})
	t.Logf("execs=%d obs=%v viol=%v dl=%d", st.Execs, st.Observations, st.Violations, st.Deadlocks)
	if len(st.Violations) > 0 {
		t.Fatal("unexpected")
	}
	if len(st.Observations) < 2 {
		t.Fatal("expected timeout outcomes too")
	}
}
