// Package vsched is a cooperative, fully controlled scheduler for model
// checking real Go code.  Rewritten repository code (see tools/rewrite) and the
// shim packages under verif/shim call into it before every visible operation.
// Exactly one logical thread runs at any time; every scheduling decision and
// every environment answer is a recorded choice so that an execution is a pure
// function of its choice list.
package vsched

import (
	"fmt"
	"runtime"
	"runtime/debug"
	"sort"
	"strings"
)

// Choice kinds.
const (
	KindSched  = 's' // which enabled thread runs next
	KindEnv    = 'e' // environment answer, alternative != 0 costs one deviation
	KindFree   = 'f' // environment answer whose alternatives are all free
	KindSelect = 'c' // which ready select case is taken
)

// ChoiceRec is one recorded choice point.
type ChoiceRec struct {
	N           int  // number of alternatives
	Pick        int  // alternative taken
	Kind        byte // Kind*
	SelfEnabled bool // KindSched: the running thread was still enabled (alt != 0 is a preemption)
	ClockAt     int  // KindSched: index of the clock pseudo thread in the candidate list, -1 if absent
}

type thread struct {
	id      int
	name    string
	wake    chan struct{}
	exited  chan struct{}
	done    bool
	parked  bool
	enabled func() bool // nil while running or when unconditionally enabled
	waiting bool        // at a point
	// channel rendezvous state
	pend      *pendingSel
	completed bool
	desc      string
}

// Exec is one controlled execution.
type Exec struct {
	threads  []*thread
	running  *thread
	Choices  []ChoiceRec
	prefix   []int
	prefixN  []int
	Steps    int
	Horizon  int
	chans    map[uintptr]*shadowChan
	timers   []*vtimer
	timerSeq int
	aborting bool
	finished chan struct{}
	finOnce  bool

	// results
	Panics      []string // one deterministic line per panic
	PanicStacks []string
	offer       []string // candidates of the scheduling choice being replayed (diagnostics)
	Deadlock    bool
	HorizonHit  bool
	Diverged    string
	Blocked     []string // descriptions of threads blocked at deadlock
	Trace       []string
	TraceOn     bool
	// per-execution scratch for harnesses / shims
	Locals map[any]any
	// FreezeAfter: when >0, the clock pseudo thread is not a candidate for timers
	// whose deadline is after this instant (used by promptness oracles).
	ClockLimit int64
	LeakOK     bool
	atExit     []func()
}

var active *Exec

// Active returns the execution under way, or nil.
func Active() *Exec { return active }

// On reports whether a controlled execution is under way.
func On() bool { return active != nil }

type abortSignal struct{}

// Run executes body as thread 0 under the scheduler, replaying prefix and then
// taking choice 0 everywhere.  It returns when every thread has finished, or on
// deadlock / horizon / panic after all threads have been reaped.
func Run(prefix, prefixN []int, horizon int, traceOn bool, body func()) *Exec {
	if active != nil {
		panic("vsched: nested Run")
	}
	e := &Exec{prefix: prefix, prefixN: prefixN, Horizon: horizon, chans: map[uintptr]*shadowChan{}, finished: make(chan struct{}, 1), Locals: map[any]any{}, TraceOn: traceOn}
	active = e
	clockReset()
	t := e.newThread("main")
	e.running = t
	go e.threadMain(t, body)
	<-e.finished
	// reap: running thread first, then parked ones, one at a time
	e.aborting = true
	if r := e.running; r != nil {
		<-r.exited
	}
	for _, th := range e.threads {
		select {
		case <-th.exited:
			continue
		default:
		}
		e.running = th
		th.wake <- struct{}{}
		<-th.exited
	}
	for _, f := range e.atExit {
		f()
	}
	active = nil
	clockOff()
	return e
}

func (e *Exec) newThread(name string) *thread {
	t := &thread{id: len(e.threads), name: name, wake: make(chan struct{}, 1), exited: make(chan struct{})}
	e.threads = append(e.threads, t)
	return t
}

func (e *Exec) finish() {
	if !e.finOnce {
		e.finOnce = true
		e.finished <- struct{}{}
	}
}

func (e *Exec) threadMain(t *thread, body func()) {
	defer close(t.exited)
	defer func() {
		if r := recover(); r != nil {
			if _, ok := r.(abortSignal); ok {
				return
			}
			if !e.aborting {
				e.Panics = append(e.Panics, fmt.Sprintf("thread %d(%s): %v", t.id, t.name, r))
				e.PanicStacks = append(e.PanicStacks, trimStack(debug.Stack()))
				e.aborting = true
				e.finish()
			}
		}
	}()
	body()
	if e.aborting {
		return
	}
	t.done = true
	e.schedule(t)
}

func trimStack(b []byte) string {
	lines := strings.Split(string(b), "\n")
	var out []string
	for _, l := range lines {
		if strings.Contains(l, "/vsched/") && !strings.Contains(l, "panic") {
			continue
		}
		out = append(out, l)
		if len(out) > 40 {
			break
		}
	}
	return strings.Join(out, "\n")
}

// Go starts f as a new logical thread.  The spawner keeps running; the spawn
// itself is a scheduling point.
func Go(f func()) {
	e := active
	if e == nil {
		go f()
		return
	}
	GoNamed("", f)
}

// GoNamed is Go with a name for traces.
func GoNamed(name string, f func()) {
	e := active
	if e == nil {
		go f()
		return
	}
	if e.aborting {
		runtime.Goexit()
	}
	e.spawn(name, f)
	Point("spawn")
}

// SpawnNoPoint creates a new logical thread without a scheduling point; for
// shims that start threads from scheduler context (timer callbacks).
func SpawnNoPoint(name string, f func()) {
	if active == nil {
		go f()
		return
	}
	active.spawn(name, f)
}

func (e *Exec) spawn(name string, f func()) {
	t := e.newThread(name)
	t.parked = true
	t.waiting = true
	t.desc = "start"
	go func() {
		<-t.wake
		if e.aborting {
			close(t.exited)
			return
		}
		t.parked = false
		t.waiting = false
		e.threadMain(t, f)
	}()
}

// Point is an unconditional scheduling point.
func Point(desc string) { PointIf(nil, desc) }

// PointIf is a scheduling point after which the caller performs an operation
// that is enabled only when en() is true.  It returns once the thread has been
// chosen to run with en() true (evaluated by the scheduler at decision time).
func PointIf(en func() bool, desc string) {
	e := active
	if e == nil {
		return
	}
	if e.aborting {
		runtime.Goexit()
	}
	t := e.running
	t.enabled = en
	t.desc = desc
	t.waiting = true
	e.schedule(t)
	t.waiting = false
	t.enabled = nil
}

func (t *thread) isEnabled() bool {
	if t.done {
		return false
	}
	if t.completed {
		return true
	}
	if t.enabled == nil {
		return true
	}
	return t.enabled()
}

// schedule picks the next thread to run.  self is the calling thread, which is
// either waiting at a point or done.
func (e *Exec) schedule(self *thread) {
	for {
		e.Steps++
		if e.Horizon > 0 && e.Steps > e.Horizon {
			e.HorizonHit = true
			e.describeBlocked()
			e.abortFrom(self)
		}
		var cands []*thread
		selfEn := self.isEnabled()
		if selfEn {
			cands = append(cands, self)
		}
		for _, t := range e.threads {
			if t != self && t.isEnabled() {
				cands = append(cands, t)
			}
		}
		clockAt := -1
		if e.clockCandidate() {
			clockAt = len(cands)
		}
		n := len(cands)
		if clockAt >= 0 {
			n++
		}
		if n == 0 {
			alive := false
			for _, t := range e.threads {
				if !t.done {
					alive = true
				}
			}
			if alive {
				e.Deadlock = true
				e.describeBlocked()
			}
			e.abortFrom(self)
		}
		if len(e.Choices) < len(e.prefix) {
			// replaying: remember who is on offer, for the message if this choice diverges
			e.offer = e.offer[:0]
			for _, t := range cands {
				e.offer = append(e.offer, fmt.Sprintf("T%d(%s)@%s", t.id, t.name, t.desc))
			}
			if clockAt >= 0 {
				e.offer = append(e.offer, "clock")
			}
		}
		idx := e.choose(n, KindSched, selfEn, clockAt)
		if idx == clockAt {
			e.fireNextTimer()
			continue
		}
		c := cands[idx]
		if e.TraceOn {
			e.Trace = append(e.Trace, fmt.Sprintf("T%d:%s", c.id, c.desc))
		}
		if c == self {
			return
		}
		e.running = c
		self.parked = true
		c.wake <- struct{}{}
		if self.done {
			return
		}
		<-self.wake
		self.parked = false
		if e.aborting {
			runtime.Goexit()
		}
		return
	}
}

func (e *Exec) describeBlocked() {
	for _, t := range e.threads {
		if !t.done {
			e.Blocked = append(e.Blocked, fmt.Sprintf("T%d(%s)@%s", t.id, t.name, t.desc))
		}
	}
	sort.Strings(e.Blocked)
}

// abortFrom ends the execution from inside thread self.
func (e *Exec) abortFrom(self *thread) {
	e.aborting = true
	e.running = self
	e.finish()
	if self.done {
		// thread is exiting anyway; return to threadMain which returns.
		panic(abortSignal{})
	}
	runtime.Goexit()
}

// Abort lets a harness end the execution early (e.g. after its oracle has what it needs).
func Abort() {
	e := active
	if e == nil {
		return
	}
	e.abortFrom(e.running)
}

func (e *Exec) choose(n int, kind byte, selfEn bool, clockAt int) int {
	if n <= 1 {
		return 0
	}
	i := len(e.Choices)
	pick := 0
	if i < len(e.prefix) {
		pick = e.prefix[i]
		if pick >= n || (i < len(e.prefixN) && e.prefixN[i] != n) {
			e.Diverged = fmt.Sprintf("choice %d: replay expects n=%v pick=%d, execution offers n=%d kind=%c %v", i, e.prefixN, pick, n, kind, e.offer)
			e.Choices = append(e.Choices, ChoiceRec{N: n, Pick: 0, Kind: kind, SelfEnabled: selfEn, ClockAt: clockAt})
			e.abortFrom(e.running)
		}
	}
	e.Choices = append(e.Choices, ChoiceRec{N: n, Pick: pick, Kind: kind, SelfEnabled: selfEn, ClockAt: clockAt})
	return pick
}

// Choose is an environment choice among n answers; answer 0 is the default and
// every other answer costs one deviation.
func Choose(n int) int {
	e := active
	if e == nil {
		return 0
	}
	if e.aborting {
		runtime.Goexit()
	}
	return e.choose(n, KindEnv, false, -1)
}

// ChooseFree is an environment choice whose alternatives are all explored
// regardless of the deviation bound.
func ChooseFree(n int) int {
	e := active
	if e == nil {
		return 0
	}
	if e.aborting {
		runtime.Goexit()
	}
	return e.choose(n, KindFree, false, -1)
}

// ThreadID returns the id of the running logical thread (-1 outside an execution).
func ThreadID() int {
	if active == nil || active.running == nil {
		return -1
	}
	return active.running.id
}

// Local returns per-execution storage for shims.
func Local(key any, mk func() any) any {
	e := active
	if e == nil {
		return nil
	}
	v, ok := e.Locals[key]
	if !ok {
		v = mk()
		e.Locals[key] = v
	}
	return v
}

// LiveThreads returns the number of threads that have not finished.
func LiveThreads() int {
	e := active
	if e == nil {
		return 0
	}
	n := 0
	for _, t := range e.threads {
		if !t.done {
			n++
		}
	}
	return n
}

// LiveThreadDescs describes unfinished threads other than the caller.
func LiveThreadDescs() []string {
	e := active
	if e == nil {
		return nil
	}
	var out []string
	for _, t := range e.threads {
		if !t.done && t != e.running {
			out = append(out, fmt.Sprintf("T%d(%s)@%s", t.id, t.name, t.desc))
		}
	}
	return out
}

// WaitIdle parks the caller until no other thread is enabled and no timer at or
// before the clock limit is pending (quiescence as seen by a harness thread).
// It is modelled as an operation enabled only when every other live thread is
// blocked; it therefore never adds behaviours, it only lets a driver thread
// observe a quiescent state.
func WaitIdle() {
	e := active
	if e == nil {
		return
	}
	self := e.running
	PointIf(func() bool {
		for _, t := range e.threads {
			if t != self && t.desc != "waitidle" && t.isEnabled() {
				return false
			}
		}
		return true
	}, "waitidle")
}

// Group is a harness-side wait group whose bookkeeping adds no scheduling
// points (threads are spawned without a point; only Wait blocks).  It keeps
// harness plumbing out of the explored choice space.
type Group struct{ n int }

// Go starts f as a logical thread.
func (g *Group) Go(f func()) {
	if active == nil {
		panic("vsched.Group outside execution")
	}
	g.n++
	active.spawn("h", func() {
		defer func() { g.n-- }()
		f()
	})
}

// Wait blocks until every thread started with Go has finished.
func (g *Group) Wait() {
	PointIf(func() bool { return g.n == 0 }, "group.Wait")
}

// AtExit registers f to run after the execution has ended and every thread has
// been reaped (for releasing OS resources); f must not call scheduling points.
func AtExit(f func()) {
	if active != nil {
		active.atExit = append(active.atExit, f)
	}
}

type touchKey struct{}

// Touch marks an access to a heap object by the running thread.  It becomes a
// scheduling point once a second thread has touched the same object in this
// execution (dynamic sharing detection).
func Touch(obj any) {
	e := active
	if e == nil {
		return
	}
	m := Local(touchKey{}, func() any { return map[any]int{} }).(map[any]int)
	cur := e.running.id
	first, ok := m[obj]
	switch {
	case !ok:
		m[obj] = cur
		return
	case first == -2:
	case first != cur:
		m[obj] = -2
	default:
		return
	}
	Point("touch")
}
